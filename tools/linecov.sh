#!/bin/sh
# tools/linecov.sh [Cxx ...]   one-off analysis, not a registered check:
# runs the quick tier of the named checks (default: all) with coverage.py switched on in every shard process
# and prints the lines / branches of /repo/pydbml that NO check executed (candidates for blind spots).
HERE="$(cd "$(dirname "$0")/.." && pwd)"
cd "$HERE"; ./setup.sh || exit 3
COV="$(mktemp -d /tmp/pvcov-XXXXXX)"
trap 'rm -rf "$COV"' EXIT INT TERM
mkdir -p $COV/site $COV/data
printf 'import coverage\ncoverage.process_startup()\n' > $COV/site/sitecustomize.py
printf '[run]\nparallel = True\nbranch = True\nsource = /repo/pydbml\ndata_file = %s/data/.coverage\n' $COV > $COV/rc
[ $# = 0 ] && set -- C01 C02 C03 C04 C05 C06 C07 C08 C09 C10 C11 C12 C13 C14 C15 C16 C17 C18
for c in "$@"; do
  S="$(mktemp -d /tmp/pv-XXXXXX)"
  PV_SCRATCH=$S PYTHONPATH="$COV/site:/repo:$HERE:$HERE/.deps" PYTHONPYCACHEPREFIX=$S/pyc PYTHONDONTWRITEBYTECODE=1 \
    PYTHONHASHSEED=0 COVERAGE_PROCESS_START=$COV/rc PV_REPO=/repo PV_NO_EVIDENCE=1 \
    /venv/bin/python -m pv.runner $c --tier quick 2>&1 | head -1
  rm -rf $S
done
cd $COV && /venv/bin/python -m coverage combine --rcfile=$COV/rc -q >/dev/null 2>&1
/venv/bin/python -m coverage report --rcfile=$COV/rc --show-missing --skip-covered 2>&1 | cut -c1-220
