#!/usr/bin/env python3
"""Regenerates MANIFEST.json from pv/props/*.py metadata (MANIFEST dict in each module)
and validates it against the schema."""
import importlib
import json
import os
import sys

# what the six mutation rounds added on top of the original level text (details: DESIGN.md section 3a, third to sixth pass)
ADDENDA = {
 'C01': ' Added later: name-sake document sequences, same-line layouts (every pair of neighbouring logical lines joined once; 47 admitted joins calibrated on the current tree), blanks around dots and tight reference operators, keyword-like string defaults, CRLF files through the path / open-file routes, coincidence classes of the generator (long / case-twin / `public` names, equal texts, expression == column name, mirrored references).',
 'C02': ' Added later: the rendered database is edited in place (column moved, endpoint reassigned, renames) and round-tripped again; keyword-like string defaults (known finding), coincidence classes of the generator.',
 'C03': ' Added later: verbatim default / note / comment fragments, one Note object shared by two elements, the `abstract` flag on FK-less tables, coincidence classes (an element named `public`, 17-digit floats, long index names, several pk indexes, default equal to an enum item).',
 'C04': ' Added later: endpoints reassigned and references made equal by an edit between two renderings, mirrored / twin references over one column pair, caller-owned column lists mutated after construction, long names, serial types.',
 'C05': ' Added later: name-sake documents first, two live parser objects, alias equal to the own bare name, column.get_refs(), padded composite endpoints.',
 'C06': ' Added later: near-miss schemas of `public`, ghosts named like an alias or like a real table with blanks around the name, table-less documents, empty quoted reference names, missing columns named like positions / function calls / format fields, documents wrapped in starred block comments; every rule under both option values.',
 'C07': ' Added later: a second settings list, settings of another element kind, unterminated comment variants, malformed numbers, stray U+FEFF, non-ASCII bare words, too many dotted parts, blanks inside types, bare names of 1-5000 characters.',
 'C08': ' Added later: reference-shape stream, table-less documents, file-name-like one-liners, foreign settings, attribute-like keys, big counts, and a growth probe for termination (ratio between sizes in a child process, not a wall-clock limit).',
 'C09': ' Added later: a render operation and enum renames inside the exhaustive histories, dotted enum names, falsy sticky notes, subclass instances, references of another database, tuple-built and caller-mutated column lists, constructor-vs-add differentials.',
 'C10': ' Added later: read-back of assignments, must-appear and at-most-once tokens, note write-back, derived enums / tables, endpoints reassigned or replaced inside the list, columns moved, list attributes mutated in place, identity post-conditions of add_*.',
 'C11': ' Added later: name-sake histories, custom-option history steps followed by option-less entry points, file histories (same size and time stamp), two live parser objects, same-thread re-entrancy probe, process-locale probe, shared-text / same-document schedules, stuck-thread detector.',
 'C12': ' Added later: other file encodings, pipes, handles opened r+ / w+ / a+ / TemporaryFile, partially read handles, options by position, indented documents, repeat after editing the first result, rewritten files, texts naming an existing file, two byte order marks.',
 'C13': ' Added later: strings of particular lengths, placeholder / escape look-alike / keyword-shaped strings, in-place edits after the first rendering, element-level COMMENT ON, API-built isolation.',
 'C14': ' Added later: repeated-line and empty comments, comments after closing braces and after setting colons, keyword-shaped and backslash-ending comment texts, comment-text neutrality, SQL prefix check for every emitter.',
 'C15': ' Added later: keyword-prefixed keys, keyword-like and long values, in-place dict isolation (parsed and API-built), tables moved between databases, the option by position and behind a byte order mark, same-line layouts.',
 'C16': ' Added later: parser-path route, copied and directly edited handler tables, re-added project, refused elements, references deleted through an equal copy, twin-database comparison (rendered before an edit vs never rendered).',
 'C17': ' Added later: abstract tables, moved columns, partly detached sides, refused add_index, many-to-many endpoints without type, one of two equal indexes deleted, same-named endpoint columns, a missing attribute after a rendering refused for another reason.',
 'C18': ' Added later: holder-first model of the known finding, self references, aliases, case-twin and empty table names, enum named like a table, moved / dangling key columns, many-to-many and back, twin databases, schemas of more than a thousand tables.',
}


HERE = os.path.dirname(os.path.dirname(os.path.abspath(__file__)))
sys.path.insert(0, HERE)
sys.path.insert(0, os.path.join(HERE, '.deps'))

BASELINE_OFF = ("cd /repo && /venv/bin/python -m pytest -ra -q -p no:cacheprovider --timeout=900 "
                "--continue-on-collection-errors")

props = [json.loads(l) for l in open(os.path.join(HERE, 'properties.jsonl'))]
checks, na = [], []
for p in props:
    pid = p['id']
    path = os.path.join(HERE, 'pv', 'props', pid.lower() + '.py')
    meta = None
    if os.path.exists(path):
        src = open(path).read()
        ns = {}
        # metadata only: read the MANIFEST literal without importing pydbml
        import ast
        tree = ast.parse(src)
        level = None
        for node in tree.body:
            if isinstance(node, ast.Assign) and getattr(node.targets[0], 'id', None) == 'MANIFEST':
                meta = ast.literal_eval(node.value)
            if isinstance(node, ast.Assign) and getattr(node.targets[0], 'id', None) == 'LEVEL':
                level = ast.literal_eval(node.value)
        if meta is not None and level:
            meta['category'] = level       # the evidence level and the claimed category are the same thing
    if meta is None:
        na.append({'property_id': pid, 'reason': 'check not built yet in this round (planned, see DESIGN.md section 3)'})
        continue
    checks.append({
        'property_id': pid,
        'quick_cmd': f'./vcheck {pid} --tier quick',
        'thorough_cmd': f'./vcheck {pid} --tier thorough',
        'evidence_file': f'/verif/evidence/{pid}.json',
        'replay_cmd_template': './vcheck replay {path}',
        'engine': 'pv',
        'level_claimed': {'category': meta.get('category', 'exploration'), 'text': meta['text'] + ADDENDA.get(pid, ''),
                          'design_ref': meta.get('design_ref', 'DESIGN.md section 3, ' + pid)},
        'level_note': meta['note'],
        'technique': meta['technique'],
    })
man = {
    'version': 1,
    'setup_cmd': './setup.sh',
    'hooks': {
        'guard': 'PYDBML_VERIF',
        'enable': ('no hooks are compiled into /repo: all instrumentation (icontract invariants, __setattr__ write tracer, '
                   'sys.monitoring reach/yield monitors, recording renderers) is attached from /verif/pv at run time; '
                   'checks import pydbml from /repo working tree via PYTHONPATH'),
        'baseline_off_cmd': BASELINE_OFF,
        'source_commits': [],
        'add_only': True,
    },
    'engines': [{'name': 'pv', 'path': '/verif/pv', 'serves_properties': [c['property_id'] for c in checks],
                 'kind_free_text': 'runtime monitoring: generated workloads driven through the real library with '
                                   'independent oracles (abstract-model expectation, re-parse, tokenising DDL reader, '
                                   'reference model in lock-step, icontract invariants, write tracer, gc census, '
                                   'schedule perturbation); subprocess shards with watchdog'}],
    'checks': checks,
    'not_applicable': na,
    'notes': 'Verdicts: exit 0 held / exit 1 VIOLATION / exit 2 INCONCLUSIVE. Known findings in /verif/known_findings.json.',
}
import jsonschema
schema = json.load(open('/root/.vp/MANIFEST.schema.json')) if os.path.exists('/root/.vp/MANIFEST.schema.json') else None
if schema:
    jsonschema.validate(man, schema)
json.dump(man, open(os.path.join(HERE, 'MANIFEST.json'), 'w'), indent=1)
print('MANIFEST.json:', len(checks), 'checks,', len(na), 'not yet claimed')
