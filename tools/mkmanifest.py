#!/usr/bin/env python3
"""Regenerates MANIFEST.json from pv/props/*.py metadata (MANIFEST dict in each module)
and validates it against the schema."""
import importlib
import json
import os
import sys

HERE = os.path.dirname(os.path.dirname(os.path.abspath(__file__)))
sys.path.insert(0, HERE)
sys.path.insert(0, os.path.join(HERE, '.deps'))

BASELINE_OFF = ("cd /repo && /venv/bin/python -m pytest -ra -q -p no:cacheprovider --timeout=900 "
                "--continue-on-collection-errors")

props = [json.loads(l) for l in open(os.path.join(HERE, 'properties.jsonl'))]
checks, na = [], []
for p in props:
    pid = p['id']
    path = os.path.join(HERE, 'pv', 'props', pid.lower() + '.py')
    meta = None
    if os.path.exists(path):
        src = open(path).read()
        ns = {}
        # metadata only: read the MANIFEST literal without importing pydbml
        import ast
        tree = ast.parse(src)
        level = None
        for node in tree.body:
            if isinstance(node, ast.Assign) and getattr(node.targets[0], 'id', None) == 'MANIFEST':
                meta = ast.literal_eval(node.value)
            if isinstance(node, ast.Assign) and getattr(node.targets[0], 'id', None) == 'LEVEL':
                level = ast.literal_eval(node.value)
        if meta is not None and level:
            meta['category'] = level       # the evidence level and the claimed category are the same thing
    if meta is None:
        na.append({'property_id': pid, 'reason': 'check not built yet in this round (planned, see DESIGN.md section 3)'})
        continue
    checks.append({
        'property_id': pid,
        'quick_cmd': f'./vcheck {pid} --tier quick',
        'thorough_cmd': f'./vcheck {pid} --tier thorough',
        'evidence_file': f'/verif/evidence/{pid}.json',
        'replay_cmd_template': './vcheck replay {path}',
        'engine': 'pv',
        'level_claimed': {'category': meta.get('category', 'exploration'), 'text': meta['text'],
                          'design_ref': meta.get('design_ref', 'DESIGN.md section 3, ' + pid)},
        'level_note': meta['note'],
        'technique': meta['technique'],
    })
man = {
    'version': 1,
    'setup_cmd': './setup.sh',
    'hooks': {
        'guard': 'PYDBML_VERIF',
        'enable': ('no hooks are compiled into /repo: all instrumentation (icontract invariants, __setattr__ write tracer, '
                   'sys.monitoring reach/yield monitors, recording renderers) is attached from /verif/pv at run time; '
                   'checks import pydbml from /repo working tree via PYTHONPATH'),
        'baseline_off_cmd': BASELINE_OFF,
        'source_commits': [],
        'add_only': True,
    },
    'engines': [{'name': 'pv', 'path': '/verif/pv', 'serves_properties': [c['property_id'] for c in checks],
                 'kind_free_text': 'runtime monitoring: generated workloads driven through the real library with '
                                   'independent oracles (abstract-model expectation, re-parse, tokenising DDL reader, '
                                   'reference model in lock-step, icontract invariants, write tracer, gc census, '
                                   'schedule perturbation); subprocess shards with watchdog'}],
    'checks': checks,
    'not_applicable': na,
    'notes': 'Verdicts: exit 0 held / exit 1 VIOLATION / exit 2 INCONCLUSIVE. Known findings in /verif/known_findings.json.',
}
import jsonschema
schema = json.load(open('/root/.vp/MANIFEST.schema.json')) if os.path.exists('/root/.vp/MANIFEST.schema.json') else None
if schema:
    jsonschema.validate(man, schema)
json.dump(man, open(os.path.join(HERE, 'MANIFEST.json'), 'w'), indent=1)
print('MANIFEST.json:', len(checks), 'checks,', len(na), 'not yet claimed')
