#!/bin/sh
# tools/reeval.sh <glob of seeded names, e.g. 'C*-1[0-2]'> [extra seed_eval args]
# re-evaluates kept seeded changes with a SNAPSHOT of /verif (so that /verif can be edited meanwhile); results go to seeded/*/meta.json
PAT="$1"; shift
SNAP=$(mktemp -d /tmp/verif-snap-XXXXXX)
rsync -a --exclude .git --exclude replay --exclude seeded /verif/ $SNAP/
for d in /verif/seeded/$PAT; do
  [ -d "$d" ] || continue
  n=$(basename $d)
  PV_VERIF_ROOT=$SNAP python3 /verif/tools/seed_eval.py $d - "$@" 2>&1 | grep -v conda | python3 -c "
import sys,json
o=json.loads(sys.stdin.read().strip().split('\n')[-1])
ok = o.get('applies') and o.get('tests_pass') and o.get('demo_fails_with_patch') and o.get('demo_passes_without')
print('$n', 'VALID' if ok else 'INVALID', '|', (o.get('summary') or '')[:90])
for c,r in o.get('checks',{}).items(): print('    ',c,'rc',r['rc'], (r['lines'][1] if len(r['lines'])>1 else r['lines'][:1]))
"
done
rm -rf $SNAP
echo REEVAL-DONE
