#!/bin/sh
# tools/seed_batch.sh [-s SRCPREFIX] [-o OFFSET] C03 C05 ...
# evaluates the three sub-agent changes of each property in <SRCPREFIX><id>/_mutants and keeps them as /verif/seeded/<id>-<k+OFFSET>
SRC=/tmp/mut-; OFF=0
while getopts s:o: f; do case $f in s) SRC=$OPTARG;; o) OFF=$OPTARG;; esac; done; shift $((OPTIND-1))
for P in "$@"; do
  for k in 1 2 3; do
    [ -f $SRC$P/_mutants/patch_$k.diff ] || continue
    N=$((k+OFF))
    python3 /verif/tools/seed_eval.py $SRC$P/_mutants $k --keep-as $P-$N 2>&1 | grep -v conda | python3 -c "
import sys,json
o=json.loads(sys.stdin.read().strip().split('\n')[-1])
ok = o.get('applies') and o.get('tests_pass') and o.get('demo_fails_with_patch') and o.get('demo_passes_without')
print('$P-$N', 'VALID' if ok else 'INVALID(applies=%s tests=%s demo_w=%s demo_wo=%s)'%(o.get('applies'),o.get('tests_pass'),o.get('demo_fails_with_patch'),o.get('demo_passes_without')), '|', (o.get('summary') or '')[:110])
for c,r in o.get('checks',{}).items(): print('    ',c,'rc',r['rc'], (r['lines'][1] if len(r['lines'])>1 else r['lines'][:1]))
"
  done
done
