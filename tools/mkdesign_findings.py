#!/usr/bin/env python3
"""Regenerate the 'Repaired' and 'Recorded' tables of DESIGN.md section 5 from known_findings.json
(between <!-- FINDINGS:BEGIN --> and <!-- FINDINGS:END -->)."""
import json
import re
import subprocess

ROOT = '/verif'
kf = json.load(open(f'{ROOT}/known_findings.json'))
out = ['<!-- FINDINGS:BEGIN -->', 'Repaired (`fixed:` lines, they suppress nothing):', '',
       '| property | commit | what failed |', '|---|---|---|']
order = subprocess.run(['git', '-C', '/repo', 'log', '--format=%h', '--reverse'], capture_output=True, text=True).stdout.split()
rows = []
for line in kf['fixed']:
    m = re.match(r'fixed: property=(C\d\d) ([0-9a-f]+) (.*)', line)
    rows.append((order.index(m.group(2)[:7]) if m.group(2)[:7] in order else 10**6, m.group(1), m.group(2), m.group(3)))
for _, p, c, w in sorted(rows):
    out.append(f'| {p} | `{c}` | {w.replace("|", "¦")} |')
out += ['', 'Recorded (open known findings; absorbed only by the stated class of witness, everything else is a VIOLATION):', '',
        '| id | property | mechanism (call site) | why not repaired | witness class absorbed |', '|---|---|---|---|---|']
for f in kf['findings']:
    mt = f.get('match', {}); k = mt.get('klass') or mt.get('klass_re') or json.dumps(mt)
    out.append('| {} | {} | {} (`{}`) | {} | `{}` |'.format(
        f['id'], f['property'], f['summary'].replace('|', '¦'), f.get('call_site', ''), f.get('why_not_fixed', f.get('why', '')).replace('|', '¦'),
        k.replace('|', '¦')))
out.append('<!-- FINDINGS:END -->')
s = open(f'{ROOT}/DESIGN.md').read()
if '<!-- FINDINGS:BEGIN -->' in s:
    s = re.sub(r'<!-- FINDINGS:BEGIN -->.*?<!-- FINDINGS:END -->', lambda m: '\n'.join(out), s, flags=re.S)
else:
    a = s.index('Repaired (`fixed:` lines, they suppress nothing):')
    b = s.index('Guard rails as designed:')
    s = s[:a] + '\n'.join(out) + '\n\n' + s[b:]
open(f'{ROOT}/DESIGN.md', 'w').write(s)
print(len(rows), 'fixed,', len(kf['findings']), 'open')
