#!/bin/sh
# tools/seed_matrix.sh [names...]   re-evaluates kept seeded changes against their own check plus related ones
# (results merged into seeded/<name>/meta.json; used for the "which checks catch which changes" table)
rel() { case $1 in
 C01) echo C01,C02,C05;; C02) echo C02,C01,C13;; C03) echo C03,C04,C10;; C04) echo C04,C03,C10;; C05) echo C05,C01,C09;;
 C06) echo C06,C01,C09;; C07) echo C07,C08,C11;; C08) echo C08,C13,C07;; C09) echo C09,C05,C06;; C10) echo C10,C16,C03;;
 C11) echo C11,C07,C05;; C12) echo C12,C15,C16;; C13) echo C13,C02,C08;; C14) echo C14,C01,C02;; C15) echo C15,C01,C12;;
 C16) echo C16,C10,C12;; C17) echo C17,C09,C10;; C18) echo C18,C03,C16;; esac; }
names="$@"; [ -z "$names" ] && names=$(ls /verif/seeded)
for n in $names; do
  P=${n%%-*}
  python3 /verif/tools/seed_eval.py /verif/seeded/$n - --checks $(rel $P) 2>&1 | grep -v conda | python3 -c "
import sys,json
o=json.loads(sys.stdin.read().strip().split('\n')[-1])
ok = o.get('applies') and o.get('tests_pass') and o.get('demo_fails_with_patch') and o.get('demo_passes_without')
print('$n', 'VALID' if ok else 'INVALID', {c:r['rc'] for c,r in o.get('checks',{}).items()})"
done
