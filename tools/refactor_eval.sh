#!/bin/sh
# tools/refactor_eval.sh <name> ...    runs every quick check against /verif/equivalent/<name>.diff applied to a scratch worktree.
# These are behaviour-preserving refactorings: every alarm here is a false alarm (or the refactoring is not equivalent).
for n in "$@"; do
  W=$(mktemp -d /tmp/pvw-XXXXXX); rmdir $W
  git -C /repo worktree add -q --detach $W HEAD || continue
  if ! git -C $W apply /verif/equivalent/$n.diff 2>/dev/null && ! (git -C $W apply --3way /verif/equivalent/$n.diff >/dev/null 2>&1 && git -C $W reset -q); then echo "$n does-not-apply"; git -C /repo worktree remove --force $W; continue; fi
  t=$(cd $W && PYTHONPATH=$W /venv/bin/python -m pytest -q -p no:cacheprovider -x 2>&1 | tail -1)
  res=""
  for c in C01 C02 C03 C04 C05 C06 C07 C08 C09 C10 C11 C12 C13 C14 C15 C16 C17 C18; do
    out=$(cd /verif && PV_REPO=$W ./vcheck $c --tier quick 2>&1); rc=$?
    res="$res $c=$rc"
    if [ $rc != 0 ]; then echo "$out" | grep -E "^(VIOLATION|INCONCLUSIVE|  class=)" | head -4 | cut -c1-300 | sed "s/^/    [$n $c] /"; fi
  done
  echo "$n tests=[$t] $res"
  git -C /repo worktree remove --force $W; rm -rf $W
done
