#!/bin/sh
# tools/with_patch.sh <patch.diff | rev:REV> [--tier T] [--tests] CHECK...
# Runs checks against a scratch worktree of /repo with a patch applied (or at a given revision).
# The worktree lives outside /repo and /verif and is removed afterwards.
set -u
what="$1"; shift
tier=quick; tests=0
while [ $# -gt 0 ]; do
  case "$1" in
    --tier) tier="$2"; shift 2;;
    --tests) tests=1; shift;;
    *) break;;
  esac
done
W=$(mktemp -d /tmp/pvw-XXXXXX)
rmdir "$W"
case "$what" in
  rev:*) git -C /repo worktree add -q --detach "$W" "${what#rev:}" || exit 9;;
  *) git -C /repo worktree add -q --detach "$W" HEAD || exit 9
     git -C "$W" apply "$what" || { echo "patch does not apply"; git -C /repo worktree remove --force "$W"; exit 9; };;
esac
if [ $tests = 1 ]; then
  (cd "$W" && PYTHONPATH="$W" /venv/bin/python -m pytest -q -p no:cacheprovider -x 2>&1 | tail -2)
fi
for c in "$@"; do
  out=$(cd /verif && PV_REPO="$W" ./vcheck "$c" --tier "$tier" 2>&1); rc=$?
  echo "== $c rc=$rc"
  echo "$out" | grep -E "^(VIOLATION|INCONCLUSIVE|  class=)" | cut -c1-260 | head -8
done
git -C /repo worktree remove --force "$W"
rm -rf "$W"
