#!/usr/bin/env python3
"""tools/seed_eval.py <srcdir> <k> [--checks C01,C02] [--tier quick] [--keep-as NAME]

Evaluates one seeded change produced by a sub-agent: <srcdir>/patch_<k>.diff, demo_<k>.py, meta_<k>.json.
  1. scratch worktree of /repo HEAD (outside /repo and /verif), patch applied
  2. the repository's own tests on the patched tree (must pass)
  3. the demonstration: must fail on the patched tree and pass on /repo
  4. the named checks (default: the property's own) against the patched tree
Prints one JSON line; with --keep-as copies patch/demo/meta(+what was run) to /verif/seeded/NAME/.
The worktree is removed afterwards."""
import argparse
import json
import os
import shutil
import subprocess
import sys
import tempfile

ap = argparse.ArgumentParser()
ap.add_argument('src')
ap.add_argument('k')
ap.add_argument('--checks', default='')
ap.add_argument('--tier', default='quick')
ap.add_argument('--keep-as', default='')
a = ap.parse_args()
src, k = a.src, a.k
if k == '-':        # re-evaluate a kept change: <src> is /verif/seeded/<name>
    patch, demo = os.path.join(src, 'patch.diff'), os.path.join(src, 'demo.py')
    meta = json.load(open(os.path.join(src, 'meta.json')))
    a.keep_as = a.keep_as or os.path.basename(src.rstrip('/'))
else:
    patch = os.path.join(src, f'patch_{k}.diff')
    demo = os.path.join(src, f'demo_{k}.py')
    meta = json.load(open(os.path.join(src, f'meta_{k}.json')))
prop = meta.get('property', '?')
checks = [c for c in a.checks.split(',') if c] or [prop]
ROOT = os.environ.get('PV_VERIF_ROOT', '/verif')     # a snapshot copy of /verif may run the checks (see tools/reeval.sh)
W = tempfile.mkdtemp(prefix='pvw-')
os.rmdir(W)
out = {'source': src, 'k': k, 'property': prop, 'summary': meta.get('summary')}


def sh(cmd, **kw):
    return subprocess.run(cmd, shell=True, stdout=subprocess.PIPE, stderr=subprocess.STDOUT, text=True, **kw)


try:
    r = sh(f'git -C /repo worktree add -q --detach {W} HEAD && git -C {W} apply {patch}')
    if r.returncode != 0:
        # the change was written against an earlier HEAD of /repo: try a 3-way merge of the patch
        r = sh(f'git -C {W} apply --3way {patch} && git -C {W} reset -q')
        out['applied_3way'] = r.returncode == 0
    out['applies'] = r.returncode == 0
    if not out['applies']:
        out['apply_error'] = r.stdout[-300:]
    else:
        r = sh(f'cd {W} && PYTHONPATH={W} /venv/bin/python -m pytest -q -p no:cacheprovider -x 2>&1 | tail -1')
        out['tests'] = r.stdout.strip()[-80:]
        out['tests_pass'] = ' passed' in r.stdout and 'failed' not in r.stdout
        r1 = sh(f'cd {W} && PYTHONPATH={W} timeout 300 /venv/bin/python {demo}')
        r0 = sh(f'cd /repo && PYTHONPATH=/repo timeout 300 /venv/bin/python {demo}')
        out['demo_fails_with_patch'] = r1.returncode != 0
        out['demo_passes_without'] = r0.returncode == 0
        out['demo_output_with_patch'] = r1.stdout.strip()[-300:]
        out['checks'] = {}
        for c in checks:
            r = sh(f'cd {ROOT} && PV_REPO={W} ./vcheck {c} --tier {a.tier}')
            lines = [ln for ln in r.stdout.split('\n') if ln.startswith('VIOLATION') or ln.startswith('  class=') or ln.startswith('INCONCLUSIVE')]
            out['checks'][c] = {'rc': r.returncode, 'lines': [ln[:220] for ln in lines[:6]]}
finally:
    sh(f'git -C /repo worktree remove --force {W}; rm -rf {W}')
if a.keep_as:
    dst = os.path.join('/verif/seeded', a.keep_as)
    os.makedirs(dst, exist_ok=True)
    if os.path.abspath(patch) != os.path.abspath(os.path.join(dst, 'patch.diff')):
        shutil.copy(patch, os.path.join(dst, 'patch.diff'))
        shutil.copy(demo, os.path.join(dst, 'demo.py'))
    m = dict(meta)
    prev = m.get('evaluated', {}).get('checks', {}) if k == '-' else {}
    m['evaluated'] = {kk: out.get(kk) for kk in ('applies', 'tests_pass', 'demo_fails_with_patch', 'demo_passes_without', 'checks')}
    if prev and m['evaluated'].get('checks') is not None:
        merged = dict(prev)
        merged.update(m['evaluated']['checks'])
        m['evaluated']['checks'] = merged
    m['what_was_run'] = ('scratch worktree of /repo HEAD + git apply patch.diff; repository test suite on the patched tree; demo.py on the '
                         'patched tree and on /repo; ./vcheck <check> --tier ' + a.tier + ' with PV_REPO=<patched worktree>; worktree removed')
    json.dump(m, open(os.path.join(dst, 'meta.json'), 'w'), indent=1)
print(json.dumps(out))
