#!/usr/bin/env python3
"""Self-test: hand-written, test-surviving changes per property ("then break it", DESIGN.md section 6).

    python3 selftest/mutants.py [--only NAME,...] [--tier quick] [--jobs N]

For every mutant: scratch worktree of /repo HEAD outside /repo and /verif, textual replacement(s) applied,
the repository's own tests run (a mutant the tests notice is reported and skipped), the named checks run
with PV_REPO pointing at the worktree, the worktree removed.  Result table -> selftest/RESULTS.json."""
import argparse
import json
import os
import subprocess
import sys
import tempfile

R = 'pydbml/'
M = [
    # name, checks expected to fire, [(file, old, new)]
    ('c01-ref-settings-swap', ['C01'], [(R + 'definitions/reference.py', "result['on_update'] = tok['update'][0]", "result['on_delete'] = tok['update'][0]"),
                                        (R + 'definitions/reference.py', "result['on_delete'] = tok['delete'][0]", "result['on_update'] = tok['delete'][0]")]),
    ('c01-autoinc-dropped-with-pk', ['C01'], [(R + 'definitions/column.py', "    if 'increment' in tok:", "    if 'increment' in tok and 'pk' not in tok:")]),
    ('c01-alias-dropped-nonpublic', ['C01', 'C05'], [(R + 'parser/blueprints.py', "            alias=self.alias,", "            alias=self.alias if self.schema == 'public' else None,")]),
    ('c01-table-note-from-settings-wins', ['C01'], [(R + 'definitions/table.py', "        init_dict['note'] = tok['note'][0]", "        init_dict.setdefault('note', tok['note'][0])")]),
    ('c01-second-index-block-only', ['C01'], [(R + 'definitions/table.py', "init_dict['indexes'] = tok['indexes'][0]", "init_dict['indexes'] = tok['indexes'][0][:3]")]),
    ('c02-alias-unquoted', ['C02'], [(R + 'renderer/dbml/default/table.py', """result += f'as "{model.alias}" '""", """result += f'as {model.alias} '""")]),
    ('c02-ref-options-swapped', ['C02'], [(R + 'renderer/dbml/default/reference.py', "options.append(f'update: {model.on_update}')", "options.append(f'delete: {model.on_update}')"),
                                          (R + 'renderer/dbml/default/reference.py', "options.append(f'delete: {model.on_delete}')", "options.append(f'update: {model.on_delete}')")]),
    ('c02-schema-test-inverted-enum', ['C02', 'C03'], [(R + 'renderer/sql/default/utils.py', """    if model.schema == 'public':
        return f'"{model.name}"'
    else:
        return f'"{model.schema}"."{model.name}"'""", """    if model.schema == 'public' or (isinstance(model, Enum) and len(model.items) > 3):
        return f'"{model.name}"'
    else:
        return f'"{model.schema}"."{model.name}"'""")]),
    ('c03-unique-suppressed-when-pk', ['C03'], [(R + 'renderer/sql/default/column.py', "    if model.unique:", "    if model.unique and not model.pk:")]),
    ('c03-composite-pk-threshold', ['C03'], [(R + '_classes/table.py', "return sum(c.pk for c in self.columns) > 1", "return sum(c.pk for c in self.columns) > 2")]),
    ('c03-using-dropped-when-unique', ['C03'], [(R + 'renderer/sql/default/index.py', "    if model.type:\n        components.append(f'USING", "    if model.type and not model.unique:\n        components.append(f'USING")]),
    ('c03-default-truthiness', ['C03'], [(R + 'renderer/sql/default/column.py', "    if model.default is not None:", "    if model.default is not None and model.default != '':")]),
    ('c04-one-to-one-like-one-to-many', ['C04'], [(R + 'renderer/sql/default/reference.py', "    if model.type in (MANY_TO_ONE, ONE_TO_ONE):\n        result = func(", "    if model.type == MANY_TO_ONE or (model.type == ONE_TO_ONE and not model.inline):\n        result = func("),
                                                  (R + 'renderer/sql/default/reference.py', "    elif model.type == ONE_TO_MANY:\n        result = func(", "    elif model.type in (ONE_TO_MANY, ONE_TO_ONE):\n        result = func(")]),
    ('c04-m2m-split-at-one', ['C04'], [(R + 'renderer/sql/default/reference.py', "    n = len(model.col1)", "    n = 1")]),
    ('c04-inline-emitted-twice', ['C04'], [(R + 'renderer/sql/default/renderer.py', "refs = (ref for ref in db.refs if not ref.inline)", "refs = (ref for ref in db.refs if not ref.inline or ref.name)")]),
    ('c05-sticky-backpointer', ['C05', 'C09'], [(R + 'database.py', "    def add_sticky_note(self, obj: StickyNote) -> StickyNote:\n        self._set_database(obj)\n", "    def add_sticky_note(self, obj: StickyNote) -> StickyNote:\n")]),
    ('c05-index-subject-copies', ['C05'], [(R + 'parser/blueprints.py', "                            new_subjects.append(col)", "                            new_subjects.append(__import__('copy').copy(col))")]),
    ('c05-enum-lookup-ignores-schema', ['C05', 'C01'], [(R + 'parser/blueprints.py', "if (enum.schema, enum.name) == (schema, name):", "if enum.name == name:")]),
    ('c06-enum-name-check-removed', ['C06', 'C09'], [(R + 'database.py', "        for enum in self.enums:\n            if enum.name == obj.name and enum.schema == obj.schema:\n                raise DatabaseValidationError(f'Enum {obj.schema}.{obj.name} is already in the database.')\n", "")]),
    ('c06-inline-compared', ['C06'], [(R + '_classes/reference.py', "dont_compare_fields = ('database', '_inline', 'comment')", "dont_compare_fields = ('database', 'comment')")]),
    ('c06-group-duplicate-check', ['C06'], [(R + 'parser/blueprints.py', "            if table_obj in items:", "            if table_obj in items and len(items) > 1:")]),
    ('c07-parse-all-false', ['C07'], [(R + 'parser/parser.py', "self._syntax.parse_string(self.source, parseAll=True)", "self._syntax.parse_string(self.source, parseAll=False)"),
                                      (R + 'parser/parser.py', ' + ("\\n" | comment)[...] + pp.StringEnd()', ' + ("\\n" | comment)[...]')]),
    ('c07-hex-colour-loosened', ['C07'], [(R + 'definitions/common.py', '''hex_color = ("#" - (hex_char * 3 ^ hex_char * 6)).leaveWhitespace()''', '''hex_color = ("#" - pp.Word(pp.srange('[0-9a-fA-F]'), min=3, max=6)).leaveWhitespace()''')]),
    ('c08-group-item-unpack', ['C08'], [(R + 'parser/blueprints.py', "schema, table = components if len(components) == 2 else ('public', components[0])", "schema, table = components if len(components) > 1 else ('public', components[0])")]),
    ('c08-whitespace-note-guard-removed', ['C08', 'C13'], [(R + 'tools.py', "    if not spaces:  # only blank lines: nothing to remove\n        return source\n", "")]),
    ('c09-append-before-alias-check', ['C09'], [(R + 'database.py', """        if obj.alias and obj.alias in self.table_dict:
            raise DatabaseValidationError(f'Table {obj.alias} is already in the database.')

        self._set_database(obj)

        self.tables.append(obj)""", """        self.tables.append(obj)
        if obj.alias and [t for t in self.tables[:-1] if obj.alias in (t.alias, t.full_name)]:
            raise DatabaseValidationError(f'Table {obj.alias} is already in the database.')

        self._set_database(obj)
""")]),
    ('c09-delete-enum-keeps-backpointer', ['C09'], [(R + 'database.py', "        result = self.enums.pop(index)\n        self._unset_database(result)", "        result = self.enums.pop(index)")]),
    ('c09-reference-guard-removed', ['C09'], [(R + 'database.py', """        else:
            raise DatabaseValidationError(
                'Cannot add reference. At least one of the referenced tables'
                ' should belong to this database'
            )""", """        else:
            pass""")]),
    # re-creations of three sub-agent changes for C09 whose files were lost (descriptions kept in DESIGN.md)
    ('c09-table-dict-cached-alias-not-invalidated', ['C09'], [
        (R + 'database.py', "        result: Dict[str, 'Table'] = {}\n        for table in self.tables:", "        key = tuple((t.schema, t.name) for t in self.tables)\n        if getattr(self, '_td_key', None) == key:\n            return self._td\n        result: Dict[str, 'Table'] = {}\n        for table in self.tables:"),
        (R + 'database.py', "                result[table.alias] = table\n        return result", "                result[table.alias] = table\n        self._td_key, self._td = key, result\n        return result")]),
    ('c09-add-project-detaches-after-install', ['C09'], [
        (R + 'database.py', "        if self.project:\n            self.delete_project()\n        self._set_database(obj)\n        self.project = obj\n        return obj",
         "        old = self.project\n        self._set_database(obj)\n        self.project = obj\n        if old:\n            self._unset_database(old)\n        return obj")]),
    ('c09-positional-delete-by-equality', ['C09'], [
        (R + '_classes/table.py', "        elif isinstance(c, int):\n            self.columns[c].table = None\n            return self.columns.pop(c)", "        elif isinstance(c, int):\n            return self.delete_column(self.columns[c])"),
        (R + '_classes/table.py', "        elif isinstance(i, int):\n            self.indexes[i].table = None\n            return self.indexes.pop(i)", "        elif isinstance(i, int):\n            return self.delete_index(self.indexes[i])")]),
    ('c10-sql-memoised', ['C10', 'C16'], [(R + '_classes/base.py', "        return renderer.render(self)\n\n    def __setattr__", "        if '_sql_cache' not in self.__dict__:\n            self.__dict__['_sql_cache'] = renderer.render(self)\n        return self.__dict__['_sql_cache']\n\n    def __setattr__")]),
    ('c10-enum-type-name-captured', ['C10'], [(R + 'parser/blueprints.py', "                    self.type = enum\n                    break", "                    self.type = enum if enum.schema == 'public' else f'\"{enum.schema}\".\"{enum.name}\"'\n                    break")]),
    ('c11-copy-removed-for-table', ['C11'], [(R + 'parser/parser.py', "table_with_properties.copy() if self._allow_properties else table.copy()", "table_with_properties.copy() if self._allow_properties else table")]),
    ('c11-shared-default-properties', ['C11'], [(R + '_classes/table.py', "        self.properties = properties if properties else {}", "        self.properties = properties if properties else _NO_PROPERTIES"),
                                                (R + '_classes/table.py', "class Table(SQLObject, DBMLObject):", "_NO_PROPERTIES: dict = {}\n\n\nclass Table(SQLObject, DBMLObject):")]),
    ('c11-result-cache', ['C11'], [(R + 'parser/parser.py', "        parser = PyDBMLParser(\n            text,", "        _LAST.append(text)\n        parser = PyDBMLParser(\n            text,"),
                                   (R + 'parser/parser.py', "class PyDBML:", "_LAST: list = []\n\n\nclass PyDBML:"),
                                   (R + 'parser/parser.py', "        return parser.parse()\n\n    @staticmethod\n    def parse_file", "        _LAST.append(parser)\n        return parser.parse()\n\n    @staticmethod\n    def parse_file")]),
    ('c12-bom-kept-in-parse-file', ['C12'], [(R + 'parser/parser.py', "        source = remove_bom(source)\n        parser = PyDBMLParser(source)", "        parser = PyDBMLParser(source)")]),
    ('c12-dbml-renderer-not-forwarded', ['C12', 'C16'], [(R + 'parser/parser.py', "                sql_renderer=sql_renderer,\n                dbml_renderer=dbml_renderer,\n            )\n        else:", "                sql_renderer=sql_renderer,\n            )\n        else:")]),
    ('c13-default-escape-bypassed', ['C13', 'C02'], [(R + 'renderer/dbml/default/column.py', """            return f"'{prepare_text_for_dbml(val)}'\"""", """            return f"'{val}'\"""")]),
    ('c13-sticky-preformat-skipped', ['C13'], [(R + 'parser/blueprints.py', "    def build(self) -> StickyNote:\n        text = self._preformat_text()", "    def build(self) -> StickyNote:\n        text = self.text")]),
    ('c13-sql-quote-kept', ['C13'], [(R + 'renderer/sql/default/note.py', """    result = result.replace("'", '"')\n""", "")]),
    ('c14-index-comment-priority', ['C14'], [(R + 'definitions/index.py', "    if 'comment' in tok:\n        init_dict['comment'] = tok['comment'][0]\n    if 'comment' not in init_dict and 'comment_before' in tok:", "    if 'comment' in tok and 'comment_before' not in tok:\n        init_dict['comment'] = tok['comment'][0]\n    if 'comment' not in init_dict and 'comment_before' in tok:")]),
    ('c14-prefix-first-line-only', ['C14'], [(R + 'tools.py', "    return '\\n'.join(f'{comb} {cl}' for cl in val.split('\\n')) + '\\n'", "    return f'{comb} {val}\\n'")]),
    ('c15-column-gate-removed', ['C15'], [(R + 'renderer/dbml/default/column.py', "        if model.table and model.table.database and model.table.database.allow_properties:", "        if model.table and model.table.database:")]),
    ('c15-flag-not-propagated', ['C15'], [(R + 'parser/parser.py', "        self.database = Database(\n            allow_properties=self._allow_properties,", "        self.database = Database(")]),
    ('c16-dbml-dispatch-inverted', ['C16'], [(R + '_classes/base.py', "        if hasattr(self, 'database') and self.database is not None:\n            renderer = self.database.dbml_renderer", "        if hasattr(self, 'database') and self.database is None:\n            renderer = self.database.dbml_renderer")]),
    ('c16-render-sorts-columns', ['C16'], [(R + 'renderer/dbml/default/table.py', "    columns_str = '\\n'.join(DefaultDBMLRenderer.render(c) for c in model.columns)", "    model.columns.sort(key=lambda c: not c.pk)\n    columns_str = '\\n'.join(DefaultDBMLRenderer.render(c) for c in model.columns)")]),
    ('c17-column-type-not-required', ['C17'], [(R + '_classes/column.py', "required_attributes = ('name', 'type')", "required_attributes = ('name',)")]),
    ('c17-table2-unvalidated', ['C17'], [(R + '_classes/reference.py', "    def table2(self) -> Optional[Table]:\n        self._validate()\n", "    def table2(self) -> Optional[Table]:\n")]),
    ('c17-get-refs-empty-when-detached', ['C17'], [(R + '_classes/table.py', "            raise UnknownDatabaseError('Database for the table is not set')", "            return []")]),
    ('c18-ties-by-hash', ['C18'], [(R + 'renderer/sql/default/utils.py', "return sorted(tables, key=lambda t: references.get(t.name, 0), reverse=True)", "return sorted(tables, key=lambda t: (references.get(t.name, 0), hash(t.name) % 7), reverse=True)")]),
    ('c18-ties-by-id', ['C18'], [(R + 'renderer/sql/default/utils.py', "return sorted(tables, key=lambda t: references.get(t.name, 0), reverse=True)", "return sorted(tables, key=lambda t: (references.get(t.name, 0), id(t) % 3), reverse=True)")]),
    ('c18-ascending', ['C18'], [(R + 'renderer/sql/default/utils.py', "references.get(t.name, 0), reverse=True)", "-references.get(t.name, 0), reverse=True)")]),
]


def sh(cmd):
    return subprocess.run(cmd, shell=True, stdout=subprocess.PIPE, stderr=subprocess.STDOUT, text=True)


def run_one(name, checks, edits, tier):
    W = tempfile.mkdtemp(prefix='pvw-')
    os.rmdir(W)
    res = {'name': name, 'expected': checks}
    try:
        r = sh(f'git -C /repo worktree add -q --detach {W} HEAD')
        for f, old, new in edits:
            p = os.path.join(W, f)
            s = open(p).read()
            if old not in s:
                res['error'] = f'pattern not found in {f}: {old[:60]!r}'
                return res
            open(p, 'w').write(s.replace(old, new, 1))
        r = sh(f'cd {W} && PYTHONPATH={W} /venv/bin/python -m pytest -q -p no:cacheprovider -x 2>&1 | tail -1')
        res['tests'] = r.stdout.strip()[-60:]
        res['tests_pass'] = ' passed' in r.stdout and 'failed' not in r.stdout and 'error' not in r.stdout
        res['checks'] = {}
        for c in checks:
            r = sh(f'cd /verif && PV_REPO={W} ./vcheck {c} --tier {tier}')
            lines = [ln[:200] for ln in r.stdout.split('\n') if ln.startswith('  class=') or ln.startswith('INCONCLUSIVE')]
            res['checks'][c] = {'rc': r.returncode, 'lines': lines[:3]}
        res['caught_by'] = [c for c in checks if res['checks'][c]['rc'] == 1]
    finally:
        sh(f'git -C /repo worktree remove --force {W}; rm -rf {W}')
    return res


def main():
    ap = argparse.ArgumentParser()
    ap.add_argument('--only', default='')
    ap.add_argument('--tier', default='quick')
    a = ap.parse_args()
    only = set(x for x in a.only.split(',') if x)
    out = []
    for name, checks, edits in M:
        if only and name not in only:
            continue
        res = run_one(name, checks, edits, a.tier)
        out.append(res)
        st = 'ERROR ' + res['error'] if 'error' in res else ('CAUGHT by ' + ','.join(res['caught_by']) if res.get('caught_by') else 'MISSED')
        print(f'{name:40s} tests_pass={res.get("tests_pass")} {st}', flush=True)
    here = os.path.dirname(os.path.abspath(__file__))
    prev = {}
    path = os.path.join(here, 'RESULTS.json')
    if os.path.exists(path):
        prev = {r['name']: r for r in json.load(open(path))}
    for r in out:
        prev[r['name']] = r
    json.dump(list(prev.values()), open(path, 'w'), indent=1)


if __name__ == '__main__':
    main()
