#!/bin/sh
# Offline, idempotent: third-party helper packages for the harness go beside it
# in /verif/.deps (git-ignored). Nothing is fetched from a network.
set -e
cd "$(dirname "$0")"
PY=${PV_PYTHON:-/venv/bin/python}
if ! PYTHONPATH="$PWD/.deps" "$PY" -c "import icontract, jsonschema" 2>/dev/null; then
    PIP_NO_INDEX=1 "$PY" -m pip install -q --no-index --find-links /opt/veriftools/wheels \
        --target "$PWD/.deps" icontract jsonschema >/dev/null 2>&1 || {
        echo "setup: could not install icontract/jsonschema from the offline wheelhouse" >&2
        exit 3
    }
fi
exit 0
