"""Build a pydbml Database from an abstract document through the public classes
(pydbml.classes + Database.add), i.e. the way a user constructs a schema by hand."""
from pv import am


def build(doc, api_inline=False, note_objects=False, **dbkw):
    from pydbml import Database
    from pydbml.classes import (Column, Enum, EnumItem, Expression, Index, Note, Project,
                                Reference, StickyNote, Table, TableGroup)
    db = Database(allow_properties=doc.allow_properties, **dbkw)
    order = doc.order or doc.default_order().order
    enums = {}
    for kind, idx in order:
        if kind == 'e':
            e = doc.enums[idx]
            items = [EnumItem(i.name, note=i.note, comment=i.comment) for i in e.items]
            enums[idx] = db.add(Enum(e.name, items, schema=e.schema, comment=e.comment))
    tables = {}
    shared_notes = {}

    def nt(text):
        # note_objects: notes are passed as Note objects, and ONE object is reused for equal texts (the constructors
        # are documented to copy the text, so sharing an object between owners must be harmless)
        if not note_objects or text is None:
            return text
        return shared_notes.setdefault(text, Note(text))
    for kind, idx in order:
        if kind != 't':
            continue
        t = doc.tables[idx]
        tab = Table(t.name, schema=t.schema, alias=t.alias, note=nt(t.note), header_color=t.header_color,
                    comment=t.comment, properties=dict(t.props) if t.props else None)
        for c in t.columns:
            ty = enums[c.type.enum] if c.type.kind == 'enum' else c.type.text
            d = c.default
            if d is None:
                dv = None
            elif d.kind == 'expr':
                dv = Expression(d.value)
            elif d.kind == 'null':
                dv = 'NULL'
            else:
                dv = d.value
            tab.add_column(Column(c.name, ty, unique=c.unique, not_null=c.not_null, pk=c.pk,
                                  autoinc=c.autoinc, default=dv, note=nt(c.note), comment=c.comment,
                                  properties=dict(c.props) if c.props else None))
        for i in t.indexes:
            subj = [tab[s] if k == 'col' else Expression(s) for k, s in i.subjects]
            tab.add_index(Index(subj, name=i.name, unique=i.unique, type=i.type, pk=i.pk,
                                note=i.note, comment=i.comment))
        tables[idx] = db.add(tab)
    for how, idx, col, r in am.ref_order(doc):
        if how == 'inline':
            t1 = tables[idx]
            t2 = tables[r.target]
            db.add(Reference(r.kind, t1[col.name], t2[r.col], inline=True))
        else:
            t1, t2 = tables[r.t1], tables[r.t2]
            l1, l2 = [t1[c] for c in r.cols1], [t2[c] for c in r.cols2]
            db.add(Reference(r.kind, l1, l2, name=r.name,
                             comment=r.comment, on_update=r.on_update, on_delete=r.on_delete, inline=bool(api_inline and r.api_inline)))
            # the caller's own lists are used for something else afterwards: the reference keeps what it was given
            l1.reverse()
            l1.append(t2[r.cols2[0]])
            l2.clear()
    for kind, idx in order:
        if kind == 'g':
            g = doc.groups[idx]
            db.add(TableGroup(g.name, [tables[i] for i in g.items], comment=g.comment,
                              note=Note(g.note) if g.note is not None else None, color=g.color))
        elif kind == 's':
            s = doc.stickies[idx]
            db.add(StickyNote(s.name, s.text))
        elif kind == 'p':
            p = doc.project
            db.add(Project(p.name, items=dict(p.items), note=p.note, comment=p.comment))
    return db
