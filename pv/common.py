"""Helpers shared by the property modules."""
import re


def parse(text, **kw):
    """-> (db, None) or (None, exception)"""
    from pydbml import PyDBML
    try:
        return PyDBML(text, **kw), None
    except RecursionError as e:   # keep distinct, see C08
        return None, e
    except Exception as e:        # noqa
        return None, e


_NUM = re.compile(r'\d+')
_QUOTED = re.compile(r"'[^']*'|\"[^\"]*\"")


def skeleton(msg, limit=70):
    """message with numbers and quoted fragments removed: a stable class key"""
    msg = _QUOTED.sub('Q', str(msg))
    msg = _NUM.sub('N', msg)
    return msg[:limit]


def path_skeleton(d):
    """'.tables[2].columns[1].note: a != b' -> '.tables[].columns[].note'"""
    head = d.split(':', 1)[0]
    return re.sub(r'\[\d+\]', '[]', head)
