"""Helpers shared by the property modules."""
import re


def parse(text, **kw):
    """-> (db, None) or (None, exception)"""
    from pydbml import PyDBML
    try:
        return PyDBML(text, **kw), None
    except RecursionError as e:   # keep distinct, see C08
        return None, e
    except Exception as e:        # noqa
        return None, e


_NUM = re.compile(r'\d+')
_QUOTED = re.compile(r"'[^']*'|\"[^\"]*\"")


def skeleton(msg, limit=70):
    """message with numbers and quoted fragments removed: a stable class key"""
    msg = _QUOTED.sub('Q', str(msg))
    msg = _NUM.sub('N', msg)
    return msg[:limit]


def path_skeleton(d):
    """'.tables[2].columns[1].note: a != b' -> '.tables[].columns[].note'"""
    head = d.split(':', 1)[0]
    return re.sub(r'\[\d+\]', '[]', head)


def parser_class():
    """the parser class of pydbml.parser.parser (a class there, other than the PyDBML factory, with a parse() method whose
    constructor takes the source and allow_properties), found by scan so that a rename does not matter; None if there is none"""
    import inspect
    import pydbml.parser.parser as P
    found = None
    for c in vars(P).values():
        if isinstance(c, type) and c.__module__ == P.__name__ and callable(getattr(c, 'parse', None)) and c.__name__ != 'PyDBML':
            try:
                params = list(inspect.signature(c.__init__).parameters)
            except (TypeError, ValueError):
                continue
            if len(params) >= 2 and 'allow_properties' in params:
                found = c
    return found
