"""Abstract model of a DBML document.  Knows nothing about pydbml.

The values stored here are the values the *parsed Database is expected to hold*
(notes in normal form, keywords in canonical spelling).  How they are spelled in
DBML text is the business of pv.surface (style), and what pydbml really stored
is read by pv.walk.  `expected(doc)` gives the content tree in the same shape
as `walk.content(db)`.
"""
import re
from dataclasses import dataclass, field
from typing import List, Optional, Tuple, Any


def BARE_OK(s):
    return re.fullmatch(r'[A-Za-z0-9_]+', s) is not None


@dataclass
class Default:
    kind: str            # int | float | bool | str | expr | null
    value: Any


@dataclass
class ColType:
    kind: str            # plain | args | array | enum | dotted | quoted
    text: str = ''       # stored text for non-enum kinds
    enum: int = -1       # index into Doc.enums for kind == enum


@dataclass
class InlineRef:
    kind: str            # > < -   (<> is never inline)
    target: int          # index into Doc.tables
    col: str


@dataclass
class Column:
    name: str
    type: ColType
    pk: bool = False
    unique: bool = False
    not_null: bool = False
    autoinc: bool = False
    default: Optional[Default] = None
    note: Optional[str] = None
    comment: Optional[str] = None
    props: List[Tuple[str, str]] = field(default_factory=list)
    inline_refs: List[InlineRef] = field(default_factory=list)
    explicit_null: bool = False   # writes the `null` setting (means: not not-null)


@dataclass
class Index:
    subjects: List[Tuple[str, str]]      # ('col', name) | ('expr', text)
    name: Optional[str] = None
    unique: bool = False
    pk: bool = False
    type: Optional[str] = None
    note: Optional[str] = None
    comment: Optional[str] = None


@dataclass
class Table:
    schema: str
    name: str
    alias: Optional[str] = None
    columns: List[Column] = field(default_factory=list)
    indexes: List[Index] = field(default_factory=list)
    note: Optional[str] = None
    header_color: Optional[str] = None
    comment: Optional[str] = None
    props: List[Tuple[str, str]] = field(default_factory=list)

    @property
    def full(self):
        return f'{self.schema}.{self.name}'


@dataclass
class EnumItem:
    name: str
    note: Optional[str] = None
    comment: Optional[str] = None


@dataclass
class Enum:
    schema: str
    name: str
    items: List[EnumItem] = field(default_factory=list)
    comment: Optional[str] = None


@dataclass
class Ref:
    kind: str                 # > < - <>
    t1: int
    cols1: List[str]
    t2: int
    cols2: List[str]
    name: Optional[str] = None
    on_update: Optional[str] = None
    on_delete: Optional[str] = None
    comment: Optional[str] = None
    form: str = 'short'       # short | block
    api_inline: bool = False  # API-built origin only: mark this reference inline (DBML text cannot say that
    #                           for composite / named / actioned references)


@dataclass
class Group:
    name: str
    items: List[int]
    note: Optional[str] = None
    color: Optional[str] = None
    comment: Optional[str] = None


@dataclass
class Sticky:
    name: str
    text: str


@dataclass
class Project:
    name: str
    items: List[Tuple[str, str]] = field(default_factory=list)
    note: Optional[str] = None
    comment: Optional[str] = None


@dataclass
class Doc:
    tables: List[Table] = field(default_factory=list)
    enums: List[Enum] = field(default_factory=list)
    refs: List[Ref] = field(default_factory=list)
    groups: List[Group] = field(default_factory=list)
    stickies: List[Sticky] = field(default_factory=list)
    project: Optional[Project] = None
    # source order of top-level elements: (kind, index); kind in t e r g s p
    order: List[Tuple[str, int]] = field(default_factory=list)
    allow_properties: bool = False
    classes: set = field(default_factory=set)     # labelled input classes the generator put into this document

    def default_order(self):
        o = []
        if self.project is not None:
            o.append(('p', 0))
        o += [('e', i) for i in range(len(self.enums))]
        o += [('t', i) for i in range(len(self.tables))]
        o += [('r', i) for i in range(len(self.refs))]
        o += [('g', i) for i in range(len(self.groups))]
        o += [('s', i) for i in range(len(self.stickies))]
        self.order = o
        return self


# ---------------------------------------------------------------------------
# expected content tree (same shape as walk.content)

def _default(d: Optional[Default]):
    if d is None:
        return None
    if d.kind == 'null':
        return ['str', 'NULL']
    return [d.kind, d.value]


def _type(doc: Doc, t: ColType):
    if t.kind == 'enum':
        e = doc.enums[t.enum]
        return ['enum', e.schema, e.name]
    return ['str', t.text]


def expected_column(doc, c: Column, with_props=True):
    return {
        'name': c.name, 'type': _type(doc, c.type), 'pk': c.pk, 'unique': c.unique,
        'not_null': c.not_null, 'autoinc': c.autoinc, 'default': _default(c.default),
        'note': c.note or '', 'comment': c.comment,
        'properties': [list(p) for p in c.props] if with_props else [],
    }


def expected_index(doc, i: Index):
    return {
        'subjects': [list(s) for s in i.subjects], 'name': i.name, 'unique': i.unique,
        'pk': i.pk, 'type': i.type, 'note': i.note or '', 'comment': i.comment,
    }


def expected_table(doc, t: Table):
    return {
        'schema': t.schema, 'name': t.name, 'alias': t.alias,
        'header_color': t.header_color, 'note': t.note or '', 'comment': t.comment,
        'properties': [list(p) for p in t.props],
        'columns': [expected_column(doc, c) for c in t.columns],
        'indexes': [expected_index(doc, i) for i in t.indexes],
    }


def ref_order(doc: Doc):
    """References in order of appearance: inline ones at their table (column
    order), standalone ones at their own position."""
    out = []
    order = doc.order or Doc.default_order(doc).order
    for kind, idx in order:
        if kind == 't':
            t = doc.tables[idx]
            for c in t.columns:
                for r in c.inline_refs:
                    out.append(('inline', idx, c, r))
        elif kind == 'r':
            out.append(('standalone', idx, None, doc.refs[idx]))
    return out


def expected_refs(doc: Doc):
    out = []
    for how, idx, col, r in ref_order(doc):
        if how == 'inline':
            t1 = doc.tables[idx]
            t2 = doc.tables[r.target]
            out.append({
                'type': r.kind, 'inline': True,
                't1': t1.full, 'cols1': [col.name], 't2': t2.full, 'cols2': [r.col],
                'name': None, 'on_update': None, 'on_delete': None, 'comment': None,
            })
        else:
            out.append({
                'type': r.kind, 'inline': False,
                't1': doc.tables[r.t1].full, 'cols1': list(r.cols1),
                't2': doc.tables[r.t2].full, 'cols2': list(r.cols2),
                'name': r.name, 'on_update': r.on_update, 'on_delete': r.on_delete,
                'comment': r.comment,
            })
    return out


def expected(doc: Doc):
    order = doc.order or Doc.default_order(doc).order

    def in_order(kind):
        return [i for k, i in order if k == kind]
    p = doc.project
    return {
        'allow_properties': doc.allow_properties,
        'project': None if p is None else {
            'name': p.name, 'items': [list(x) for x in p.items], 'note': p.note or '',
            'comment': p.comment},
        'enums': [{
            'schema': e.schema, 'name': e.name, 'comment': e.comment,
            'items': [{'name': i.name, 'note': i.note or '', 'comment': i.comment} for i in e.items],
        } for e in (doc.enums[i] for i in in_order('e'))],
        'tables': [expected_table(doc, doc.tables[i]) for i in in_order('t')],
        'refs': expected_refs(doc),
        'groups': [{
            'name': g.name, 'items': [doc.tables[i].full for i in g.items],
            'note': g.note, 'color': g.color, 'comment': g.comment,
        } for g in (doc.groups[i] for i in in_order('g'))],
        'stickies': [{'name': s.name, 'text': s.text} for s in (doc.stickies[i] for i in in_order('s'))],
    }


def strip_comments(tree):
    """Copy of a content tree without `comment` attributes."""
    if isinstance(tree, dict):
        return {k: strip_comments(v) for k, v in tree.items() if k != 'comment'}
    if isinstance(tree, list):
        return [strip_comments(v) for v in tree]
    return tree


def diff_items(a, b, path='', out=None, limit=40):
    """Structural diff of two content trees -> list of (path, a, b)."""
    if out is None:
        out = []
    if len(out) >= limit:
        return out
    if type(a) is not type(b):
        out.append((path, a, b))
    elif isinstance(a, dict):
        for k in sorted(set(a) | set(b)):
            if k not in a:
                out.append((f'{path}.{k}', '<absent>', b[k]))
            elif k not in b:
                out.append((f'{path}.{k}', a[k], '<absent>'))
            else:
                diff_items(a[k], b[k], f'{path}.{k}', out, limit)
    elif isinstance(a, list):
        if len(a) != len(b):
            out.append((path + '#len', a, b))
        else:
            for i, (x, y) in enumerate(zip(a, b)):
                diff_items(x, y, f'{path}[{i}]', out, limit)
    elif a != b:
        out.append((path, a, b))
    return out


def diff(a, b, limit=12):
    """-> list of 'path: a != b' strings"""
    return [f'{p}: {x!r} != {y!r}'[:500] for p, x, y in diff_items(a, b, limit=limit)]
