"""Observed-model extractor: reads only public attributes of a pydbml Database.

content(db)  -> plain JSON-able tree (shape of am.expected)
identity(db) -> set of id() of every mutable object reachable from the database
fingerprint(db) -> digest of content
"""
from pv.result import digest


def _kind_of_default(v):
    from pydbml.classes import Expression
    if v is None:
        return None
    if isinstance(v, bool):
        return ['bool', v]
    if isinstance(v, int):
        return ['int', v]
    if isinstance(v, float):
        return ['float', v]
    if isinstance(v, str):
        return ['str', v]
    if isinstance(v, Expression):
        return ['expr', v.text]
    return ['?' + type(v).__name__, repr(v)]


def _type(t):
    from pydbml.classes import Enum
    if isinstance(t, Enum):
        return ['enum', t.schema, t.name]
    if isinstance(t, str):
        return ['str', t]
    return ['?' + type(t).__name__, repr(t)]


def _note_text(n):
    if n is None:
        return None
    return getattr(n, 'text', n)


def _props(p):
    if p is None:
        return []
    return [[k, v] for k, v in p.items()]


def column(c):
    return {
        'name': c.name, 'type': _type(c.type), 'pk': c.pk, 'unique': c.unique,
        'not_null': c.not_null, 'autoinc': c.autoinc, 'default': _kind_of_default(c.default),
        'note': _note_text(c.note), 'comment': c.comment, 'properties': _props(c.properties),
    }


def subject(s):
    from pydbml.classes import Column, Expression
    if isinstance(s, Column):
        return ['col', s.name]
    if isinstance(s, Expression):
        return ['expr', s.text]
    return ['str', s]


def index(i):
    return {
        'subjects': [subject(s) for s in i.subjects], 'name': i.name, 'unique': i.unique,
        'pk': i.pk, 'type': i.type, 'note': _note_text(i.note), 'comment': i.comment,
    }


def table(t):
    return {
        'schema': t.schema, 'name': t.name, 'alias': t.alias, 'header_color': t.header_color,
        'note': _note_text(t.note), 'comment': t.comment, 'properties': _props(t.properties),
        'columns': [column(c) for c in t.columns],
        'indexes': [index(i) for i in t.indexes],
    }


def _tname(col):
    t = col.table
    return None if t is None else f'{t.schema}.{t.name}'


def ref(r):
    return {
        'type': r.type, 'inline': bool(r.inline),
        't1': _tname(r.col1[0]) if r.col1 else None, 'cols1': [c.name for c in r.col1],
        't2': _tname(r.col2[0]) if r.col2 else None, 'cols2': [c.name for c in r.col2],
        'name': r.name, 'on_update': r.on_update, 'on_delete': r.on_delete, 'comment': r.comment,
    }


def enum(e):
    return {
        'schema': e.schema, 'name': e.name, 'comment': e.comment,
        'items': [{'name': i.name, 'note': _note_text(i.note), 'comment': i.comment} for i in e.items],
    }


def group(g):
    return {
        'name': g.name, 'items': [f'{t.schema}.{t.name}' if not isinstance(t, str) else t for t in g.items],
        'note': _note_text(g.note), 'color': g.color, 'comment': g.comment,
    }


def project(p):
    if p is None:
        return None
    return {'name': p.name, 'items': [[k, v] for k, v in p.items.items()],
            'note': _note_text(p.note), 'comment': p.comment}


def content(db):
    return {
        'allow_properties': db.allow_properties,
        'project': project(db.project),
        'enums': [enum(e) for e in db.enums],
        'tables': [table(t) for t in db.tables],
        'refs': [ref(r) for r in db.refs],
        'groups': [group(g) for g in db.table_groups],
        'stickies': [{'name': s.name, 'text': s.text} for s in db.sticky_notes],
    }


def fingerprint(db):
    return digest(content(db))


def identity(db):
    """ids of every mutable object reachable through public attributes
    (model objects, their lists and dicts)."""
    seen = {}

    def add(o):
        if o is None or isinstance(o, (str, int, float, bool, type)):
            return False
        if id(o) in seen:
            return False
        seen[id(o)] = o
        return True

    def visit(o):
        if not add(o):
            return
        if isinstance(o, (list, tuple)):
            for x in o:
                visit(x)
        elif isinstance(o, dict):
            for x in o.values():
                visit(x)
        elif hasattr(o, '__dict__'):
            for k, v in vars(o).items():
                if k in ('sql_renderer', 'dbml_renderer'):
                    continue
                visit(v)
    visit(db)
    return seen
