"""Known-findings discipline.

/verif/known_findings.json is committed and never written at run time.  Each
entry is keyed by *mechanism*: the property, the violation class emitted by the
check (`klass`, a short key naming sub-check + failure kind) and a conjunction
of required witness features.  A violation record is absorbed only if an open
entry matches it; everything else is a fresh VIOLATION.  `fixed` entries
suppress nothing.
"""
import json
import os
import re

HERE = os.path.dirname(os.path.dirname(os.path.abspath(__file__)))
PATH = os.path.join(HERE, 'known_findings.json')


def load(pid):
    if not os.path.exists(PATH):
        return []
    with open(PATH) as f:
        data = json.load(f)
    return [e for e in data.get('findings', []) if e['property'] == pid]


def _feat_ok(need, have):
    for k, want in need.items():
        got = have.get(k)
        if isinstance(want, list):
            if got not in want:
                return False
        elif got != want:
            return False
    return True


def match(known, v):
    for e in known:
        if e.get('status', 'open') != 'open':
            continue
        m = e['match']
        if 'klass' in m and v.get('klass') != m['klass']:
            continue
        if 'klass_re' in m and not re.fullmatch(m['klass_re'], v.get('klass', '')):
            continue
        if not _feat_ok(m.get('features', {}), v.get('features', {})):
            continue
        return e
    return None


def audit(known, counters, absorbed):
    """Purity / staleness numbers per open finding: how many generated cases fell in
    the finding's input class (counter named by `input_class_counter`), how many
    failures it absorbed."""
    out = {}
    for e in known:
        if e.get('status', 'open') != 'open':
            continue
        c = e.get('input_class_counter')
        out[e['id']] = {
            'absorbed': len(absorbed.get(e['id'], [])),
            'input_class_cases': counters.get(c) if c else None,
            'failed_total_in_class': counters.get('viol.' + e['match'].get('klass', ''), None),
        }
    return out
