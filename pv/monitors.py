"""Monitors attached from the harness (nothing is edited in /repo).

ReachMonitor   sys.monitoring PY_START counts per (file, qualname) under <repo>/pydbml
classify_exc   escape classifier: exception class + innermost frame inside pydbml
WriteTracer    class-level __setattr__ wrappers on the model classes (phase-tagged)
census         gc census of model / parser / blueprint instances
"""
import gc
import os
import sys
import traceback

REPO = os.path.realpath(os.environ.get('PV_REPO', '/repo'))
PKG = os.path.join(REPO, 'pydbml') + os.sep


class ReachMonitor:
    TOOL = 3

    def __init__(self):
        self.counts = {}
        self.on = False

    def __enter__(self):
        mon = sys.monitoring
        try:
            mon.use_tool_id(self.TOOL, 'pv-reach')
        except ValueError:
            return self
        self.on = True

        def start(code, offset):
            fn = code.co_filename
            if fn.startswith(PKG):
                k = fn[len(PKG):-3].replace(os.sep, '.') + ':' + code.co_qualname
                self.counts[k] = self.counts.get(k, 0) + 1
                return None
            return mon.DISABLE
        mon.register_callback(self.TOOL, mon.events.PY_START, start)
        mon.set_events(self.TOOL, mon.events.PY_START)
        return self

    def __exit__(self, *a):
        if self.on:
            mon = sys.monitoring
            mon.set_events(self.TOOL, 0)
            mon.register_callback(self.TOOL, mon.events.PY_START, None)
            mon.free_tool_id(self.TOOL)
            self.on = False
        return False


def classify_exc(e):
    """(class name, 'file:function' of the innermost frame inside pydbml or '-')"""
    where = '-'
    tb = e.__traceback__
    for fs in reversed(traceback.extract_tb(tb)):
        fn = os.path.realpath(fs.filename)
        if fn.startswith(PKG):
            where = fn[len(PKG):] + ':' + fs.name
            break
    return type(e).__name__, where


def is_parse_error(e):
    import pyparsing
    return isinstance(e, pyparsing.ParseBaseException)


def is_library_error(e):
    import pydbml.exceptions as ex
    return type(e).__module__ == ex.__name__ and isinstance(e, Exception)


MODEL_CLASS_NAMES = ['Column', 'Enum', 'EnumItem', 'Expression', 'Index', 'Note', 'Project',
                     'Reference', 'StickyNote', 'Table', 'TableGroup']


def model_classes():
    import pydbml.classes as C
    from pydbml.database import Database
    return [getattr(C, n) for n in MODEL_CLASS_NAMES] + [Database]


class WriteTracer:
    """Records every attribute write on model objects while active.
    events: list of (phase, class name, attribute)"""

    def __init__(self, keep_ids=False):
        self.events = []
        self.phase = 'idle'
        self._saved = []
        self.keep_ids = keep_ids

    def __enter__(self):
        tracer = self
        for cls in model_classes():
            had_own = '__setattr__' in cls.__dict__
            orig = cls.__setattr__

            def make(orig, cls):
                def __setattr__(self, name, value):
                    if tracer.keep_ids:
                        tracer.events.append((tracer.phase, cls.__name__, name, id(self)))
                    else:
                        tracer.events.append((tracer.phase, cls.__name__, name))
                    orig(self, name, value)
                return __setattr__
            self._saved.append((cls, had_own, cls.__dict__.get('__setattr__')))
            cls.__setattr__ = make(orig, cls)
        return self

    def __exit__(self, *a):
        for cls, had_own, own in reversed(self._saved):
            if had_own:
                cls.__setattr__ = own
            else:
                del cls.__setattr__
        self._saved = []
        return False


def census():
    """live instance counts of every class defined in pydbml.parser.* (parser, blueprints), of Database and of the
    model classes; found by scanning the modules, so that renamed internals do not matter"""
    import importlib
    import pkgutil
    import pydbml.parser as PP
    from pydbml.database import Database
    classes = [Database]
    for m in pkgutil.iter_modules(PP.__path__):
        try:
            mod = importlib.import_module('pydbml.parser.' + m.name)
        except Exception:
            continue
        for c in vars(mod).values():
            if isinstance(c, type) and getattr(c, '__module__', '').startswith('pydbml.parser'):
                classes.append(c)
    classes += model_classes()
    classes = list(dict.fromkeys(classes))
    gc.collect()
    counts = {c.__name__: 0 for c in classes}
    cs = tuple(classes)
    for o in gc.get_objects():
        if isinstance(o, cs):
            counts[type(o).__name__] = counts.get(type(o).__name__, 0) + 1
    return counts
