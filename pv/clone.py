"""Rebuild a database through the public constructors from the *current* attribute values of
a live one (names are read through the live links).  Used as the oracle of C10."""


def clone(db):
    from pydbml import Database
    from pydbml.classes import (Column, Enum, EnumItem, Expression, Index, Note, Project, Reference,
                                StickyNote, Table, TableGroup)
    new = Database(sql_renderer=db.sql_renderer, dbml_renderer=db.dbml_renderer, allow_properties=db.allow_properties)
    emap, tmap, cmap = {}, {}, {}

    def note_text(n):
        return None if n is None else n.text

    def value(v):
        return Expression(v.text) if isinstance(v, Expression) else v
    for e in db.enums:
        ne = Enum(e.name, [EnumItem(i.name, note=note_text(i.note), comment=i.comment) for i in e.items],
                  schema=e.schema, comment=e.comment)
        emap[id(e)] = new.add(ne)
    for t in db.tables:
        nt = Table(t.name, schema=t.schema, alias=t.alias, note=note_text(t.note), header_color=t.header_color,
                   comment=t.comment, properties=dict(t.properties) if t.properties else None)
        for c in t.columns:
            ty = emap.get(id(c.type), c.type) if not isinstance(c.type, str) else c.type
            nc = Column(c.name, ty, unique=c.unique, not_null=c.not_null, pk=c.pk, autoinc=c.autoinc,
                        default=value(c.default), note=note_text(c.note), comment=c.comment,
                        properties=dict(c.properties) if c.properties else None)
            nt.add_column(nc)
            cmap[id(c)] = nc
        for ix in t.indexes:
            subj = [cmap[id(s)] if id(s) in cmap else value(s) for s in ix.subjects]
            nt.add_index(Index(subj, name=ix.name, unique=ix.unique, type=ix.type, pk=ix.pk,
                               note=note_text(ix.note), comment=ix.comment))
        tmap[id(t)] = new.add(nt)
    for r in db.refs:
        new.add(Reference(r.type, [cmap[id(c)] for c in r.col1], [cmap[id(c)] for c in r.col2], name=r.name,
                          comment=r.comment, on_update=r.on_update, on_delete=r.on_delete, inline=r.inline))
    for g in db.table_groups:
        new.add(TableGroup(g.name, [tmap[id(t)] for t in g.items], comment=g.comment,
                           note=Note(g.note.text) if g.note is not None else None, color=g.color))
    for s in db.sticky_notes:
        new.add(StickyNote(s.name, s.text))
    if db.project is not None:
        p = db.project
        new.add(Project(p.name, items=dict(p.items), note=note_text(p.note), comment=p.comment))
    return new
