"""C05 — A parsed database is one consistently linked object graph.

Every expectation is derived from the abstract model (which declaration a name
token belongs to) and compared with `is`, never `==` (structural equality
would accept a copy)."""
import random

from pv import am, gen, surface, monitors
from pv.common import parse
from pv.result import Shard

ID = 'C05'
MANIFEST = {
    'text': ('Parses generated documents (aliases, several schemas, equal table names across schemas, enum names reused across '
             'schemas, composite and self references, >= 3 addressings per endpoint: schema.name, bare, public.name, alias) and '
             'asserts object identity on the returned graph: reference endpoints are the tables\' own Column objects, inline '
             'refs start at the declaring column, every column/index/note back-pointer, index subjects, enum-typed columns, '
             'group items, .database of every top-level object, db[i] is db[name] is db[alias], get_refs() per table, and '
             'exactly one SQL key holder per non-<> reference. ~60k identity assertions per quick run.'),
    'note': 'identities are observed on public attributes only; the key-holder clause calls renderer.sql.default.table.get_references_for_sql when it exists (skipped and counted otherwise)',
    'technique': 'runtime monitoring: identity-graph assertions (is, not ==) on parsed results vs model-derived expectation',
}
LEVEL = 'exploration'
BUDGET = {'quick': 60, 'thorough': 360}
RULE = ('seeded random documents biased to aliases / schemas / enum types / composite and self references, each in 3 (quick) or '
        '5 (thorough) addressing+style vectors, plus a labelled class with equal bare names across schemas; a case = one '
        '(document, style); distinct by text hash; non-trivial = has a reference, index, enum-typed column or group')
ASSUMPTIONS = ['unique name tokens: two distinct tables of one document are never structurally equal', 'CPython/pyparsing trusted']


def check_identity(sh, doc, db, suite, case):
    order = doc.order or doc.default_order().order
    tix = [i for k, i in order if k == 't']
    eix = [i for k, i in order if k == 'e']
    gix = [i for k, i in order if k == 'g']
    dbt = {i: db.tables[k] for k, i in enumerate(tix)} if len(db.tables) == len(tix) else None
    if dbt is None or len(db.enums) != len(eix) or len(db.table_groups) != len(gix):
        sh.violation('shape', 'shape:element-count', f'tables {len(db.tables)}/{len(tix)} enums {len(db.enums)}/{len(eix)}', case)
        return
    dbe = {i: db.enums[k] for k, i in enumerate(eix)}
    n = [0]

    def ck(cond, klass, detail):
        n[0] += 1
        sh.count('obs.assert.' + klass)
        if not cond:
            sh.violation('identity', 'identity:' + klass, detail, case, {'suite': suite})

    def colobj(ti, name):
        for c in dbt[ti].columns:
            if c.name == name:
                return c
        return None
    # tables, columns, indexes, notes
    for ti, T in dbt.items():
        A = doc.tables[ti]
        ck(T.database is db, 'table.database', f'{A.full}.database is not the db')
        ck(T.note is not None and T.note.parent is T, 'table.note.parent', f'{A.full}.note.parent')
        def lk(key_):
            try:
                return db[key_]
            except Exception as e_:  # noqa   (a failing lookup is a failed assertion, not a harness error)
                return e_
        ck(lk(A.full) is T, 'lookup.fullname', f'db[{A.full!r}] is not the table')
        ck(lk(tix.index(ti)) is T, 'lookup.index', f'db[{tix.index(ti)}]')
        if A.alias:
            ck(lk(A.alias) is T, 'lookup.alias', f'db[{A.alias!r}] is not {A.full}')
        ck(len(T.columns) == len(A.columns), 'table.columns.len', A.full)
        for c, a in zip(T.columns, A.columns):
            ck(c.table is T, 'column.table', f'{A.full}.{a.name}.table')
            ck(c.note is not None and c.note.parent is c, 'column.note.parent', f'{A.full}.{a.name}.note.parent')
            if a.type.kind == 'enum':
                ck(c.type is dbe[a.type.enum], 'column.enum_type', f'{A.full}.{a.name}.type is {c.type!r}')
        ck(len(T.indexes) == len(A.indexes), 'table.indexes.len', A.full)
        for ix, a in zip(T.indexes, A.indexes):
            ck(ix.table is T, 'index.table', f'{A.full} index .table')
            ck(ix.note is not None and ix.note.parent is ix, 'index.note.parent', f'{A.full} index note.parent')
            if len(ix.subjects) == len(a.subjects):
                for s, (kind, nm_) in zip(ix.subjects, a.subjects):
                    if kind == 'col':
                        ck(s is colobj(ti, nm_), 'index.subject', f'{A.full} index subject {nm_!r} is {s!r}')
    for k, ei in enumerate(eix):
        E = db.enums[k]
        ck(E.database is db, 'enum.database', doc.enums[ei].name)
        for it in E.items:
            ck(it.note is not None and it.note.parent is it, 'enumitem.note.parent', f'{E.name}.{it.name}')
    # references
    exp_refs = am.ref_order(doc)
    if len(db.refs) != len(exp_refs):
        sh.violation('shape', 'shape:ref-count', f'{len(db.refs)} refs, expected {len(exp_refs)}', case)
    else:
        for R, (how, idx, col, r) in zip(db.refs, exp_refs):
            ck(R.database is db, 'ref.database', repr(R))
            if how == 'inline':
                e1, e2 = [(idx, col.name)], [(r.target, r.col)]
            else:
                e1, e2 = [(r.t1, c) for c in r.cols1], [(r.t2, c) for c in r.cols2]
            ck(len(R.col1) == len(e1) and all(x is colobj(*y) for x, y in zip(R.col1, e1)),
               'ref.col1' + ('.inline' if how == 'inline' else ''), f'{R!r} col1 is not {e1}')
            ck(len(R.col2) == len(e2) and all(x is colobj(*y) for x, y in zip(R.col2, e2)),
               'ref.col2' + ('.inline' if how == 'inline' else ''), f'{R!r} col2 is not {e2}')
        # get_refs per table: exactly the refs whose left side is the table, by identity, in order
        for ti, T in dbt.items():
            want = [R for R, (how, idx, col, r) in zip(db.refs, exp_refs) if (idx if how == 'inline' else r.t1) == ti]
            try:
                got = T.get_refs()
            except Exception as e:
                got = e
            ck(isinstance(got, list) and len(got) == len(want) and all(x is y for x, y in zip(got, want)),
               'table.get_refs', f'{doc.tables[ti].full}.get_refs() = {got!r}, expected {want!r}')
        # column.get_refs(): the references in which the column is one of the FIRST-side columns (composite ones included)
        for ti, T in dbt.items():
            for C in T.columns:
                wantc = [R for R in db.refs if any(x is C for x in R.col1)]
                try:
                    gotc = C.get_refs()
                except Exception as e:  # noqa
                    gotc = e
                ck(isinstance(gotc, list) and len(gotc) == len(wantc) and all(x is y for x, y in zip(gotc, wantc)),
                   'column.get_refs', f'{doc.tables[ti].full}.{C.name}.get_refs() = {gotc!r}, expected {wantc!r}')
        # key holder: every non-<> reference is returned for exactly one table
        try:
            from pydbml.renderer.sql.default.table import get_references_for_sql
        except Exception:
            get_references_for_sql = None
            sh.count('obs.key_holder_function_absent')
        if get_references_for_sql is not None:
            holders = {id(R): [] for R in db.refs}
            for ti, T in dbt.items():
                for R in get_references_for_sql(T):
                    holders.setdefault(id(R), []).append(ti)
            for R, (how, idx, col, r) in zip(db.refs, exp_refs):
                t1 = idx if how == 'inline' else r.t1
                t2 = r.target if how == 'inline' else r.t2
                if r.kind == '<>':
                    continue
                want = [t1] if r.kind in ('>', '-') else [t2]
                ck(holders[id(R)] == want, 'ref.key_holder', f'{R!r} kind {r.kind}: holders {holders[id(R)]}, expected {want}')
    # groups, sticky notes, project
    for k, gi in enumerate(gix):
        G, A = db.table_groups[k], doc.groups[gi]
        ck(G.database is db, 'group.database', A.name)
        ck(len(G.items) == len(A.items) and all(x is dbt[i] for x, i in zip(G.items, A.items)), 'group.items', A.name)
        if A.note is not None:
            ck(G.note is not None and getattr(G.note, 'parent', None) is G, 'group.note.parent', A.name)
    for S in db.sticky_notes:
        ck(S.database is db, 'sticky.database', S.name)
    if doc.project is not None:
        P = db.project
        ck(P is not None and P.database is db, 'project.database', doc.project.name)
        ck(P is not None and P.note.parent is P, 'project.note.parent', doc.project.name)
    sh.count('obs.identity_assertions', n[0])


def biased_doc(rng, size, samebare=False):
    doc = gen.random_doc(rng, size, 'plain', props=False)
    for t in doc.tables:
        if t.alias == t.name:
            t.alias = None          # this check builds its own alias / bare-name clashes below
    if rng.random() < 0.3:
        # the same note text on several owners: every owner must still get a note of its own
        same = 'the same note text everywhere'
        for g in doc.groups:
            g.note = same
        if len(doc.groups) == 1:
            doc.groups.append(am.Group(doc.groups[0].name + '_twin', list(doc.groups[0].items), note=same))
            doc.order.append(('g', len(doc.groups) - 1))
        for t in doc.tables[:2]:
            t.note = same
            t.columns[0].note = same
    # bias: more aliases, reuse an enum name across schemas, self/composite refs come from random_doc
    for t in doc.tables:
        if t.alias is None and rng.random() < 0.4:
            t.alias = f'al{rng.randrange(10**6)}_'
    if len(doc.enums) >= 2 and '.' in doc.enums[0].name:
        pass        # a dotted enum name is only expressible with an explicit schema: not copied to another enum
    elif len(doc.enums) >= 2 and doc.enums[0].schema != doc.enums[1].schema and rng.random() < 0.7:
        doc.enums[1].name = doc.enums[0].name
    elif len(doc.enums) >= 2 and rng.random() < 0.5:
        doc.enums[1].schema = 'sx_' + doc.enums[1].schema
        doc.enums[1].name = doc.enums[0].name
    if samebare == 'aliasshadow-public' and len(doc.tables) >= 2:
        # another table's alias equals the bare name of a PUBLIC table; every table is then addressed as
        # schema.name explicitly (bare `name.col` would be ambiguous between the table and the alias)
        a, b = doc.tables[0], doc.tables[1]
        a.schema = 'public'
        if b.schema == 'public':
            b.schema = 'shp_' + b.name
        b.alias = a.name
        return doc
    if samebare == 'aliasshadow' and len(doc.tables) >= 2:
        # another table's alias equals the bare name of a table in a non-public schema
        a, b = doc.tables[0], doc.tables[1]
        if a.schema == 'public':
            a.schema = 'sh_' + a.name
        b.alias = a.name
        return doc
    if samebare == 'selfalias':
        # a table outside public whose alias is spelled like its own bare name: `name.col` addresses it through the alias
        a = doc.tables[0]
        if a.schema == 'public':
            a.schema = 'sa_' + a.name
        a.alias = a.name
        return doc
    if samebare == 'widetwins' and len(doc.tables) >= 2:
        # two equally named tables in different schemas, both WIDE (more columns than any short-cut threshold) and with equal
        # column names; a reference into the second and one into the first: each endpoint must be the column of ITS table
        a, b = doc.tables[0], doc.tables[1]
        if a.schema == b.schema:
            b.schema = 'sb_' + b.schema
        b.name = a.name
        n = rng.choice([17, 25, 26, 33, 65, 130])
        for t in (a, b):
            have = {c.name for c in t.columns}
            for j in range(n):
                if f'w{j}' not in have:
                    t.columns.append(am.Column(f'w{j}', am.ColType('plain', 'int')))
        si = 2 if len(doc.tables) > 2 else 0
        src = doc.tables[si]
        for tgt in (1, 0):
            doc.refs.append(am.Ref('>', si, [src.columns[0].name], tgt, [f'w{rng.randrange(n)}']))
            doc.order.append(('r', len(doc.refs) - 1))
        return doc
    if samebare == 'wstwin' and len(doc.tables) >= 2:
        # a quoted name with blanks at its edge next to its stripped twin (table and schema level); both are members of a group
        a, b = doc.tables[0], doc.tables[1]
        b.schema = a.schema
        b.name = rng.choice([a.name + ' ', ' ' + a.name, ' ' + a.name + ' '])
        if len(doc.tables) > 2 and a.schema != 'public' and rng.random() < 0.5:
            c = doc.tables[2]
            c.schema, c.name = a.schema + ' ', a.name
        doc.groups.append(am.Group(f'gws{rng.randrange(10**6)}', [1, 0] + ([2] if len(doc.tables) > 2 else [])))
        doc.order.append(('g', len(doc.groups) - 1))
        return doc
    if samebare and len(doc.tables) >= 2:
        a, b = doc.tables[0], doc.tables[1]
        if a.schema == b.schema:
            b.schema = 'sb_' + b.schema
        b.name = a.name
    return doc


def plan(tier, seed):
    return [{'shard': i, 'of': 16} for i in range(16)]


def run_shard(spec, tier, seed, budget_s):
    sh = Shard(ID, budget_s)
    i = spec['shard']
    rng = random.Random(f'{seed}-c05-{i}')
    nst = {'quick': 3, 'thorough': 5}[tier]
    target = {'quick': 200, 'thorough': 4000}[tier]
    k = 0
    prev_text = None
    with monitors.ReachMonitor() as reach:
        while k < target and not sh.out_of_time():
            k += 1
            samebare = rng.choice([False, False, False, False, False, False, True, True, 'aliasshadow', 'aliasshadow-public', 'selfalias', 'widetwins', 'wstwin'])
            doc = biased_doc(rng, 'large' if k <= 2 else rng.choice(['small', 'medium', 'medium'] + (['large'] if tier == 'thorough' else [])), samebare)
            suite = samebare if isinstance(samebare, str) else ('samebare' if samebare else 'random')
            if doc.enums and rng.random() < 0.3:
                # the name-sake document first (same type names, no enum declares them)
                da = gen.namesake(doc)
                kn_ = {'addr': 'explicit'} if samebare == 'aliasshadow-public' else None
                dba, erra = parse(surface.render(da, f'{seed}-{i}-{k}-ns', kn_))
                sh.count('obs.docs.namesake-first')
                if erra is None:
                    check_identity(sh, da, dba, 'namesake', {'kind': 'identity', 'text': surface.render(da, f'{seed}-{i}-{k}-ns', kn_)})
            for s in range(nst):
                text = surface.render(doc, f'{seed}-{i}-{k}-{s}', {'addr': 'explicit'} if samebare == 'aliasshadow-public' else
                                      {'addr': 'alias'} if samebare == 'selfalias' and s == 0 else None)
                feats = gen.features(doc)
                sh.case(text, nontrivial=bool(feats & {'ref', 'inline_ref', 'index', 'type_enum', 'group'}),
                        sample={'suite': suite, 'text': text[:1200]})
                sh.count('obs.docs.' + suite)
                db, err = parse(text)
                case = {'kind': 'identity', 'text': text}
                if err is not None:
                    cls, where = monitors.classify_exc(err)
                    sh.violation('parse', f'rejected:{cls}@{suite}', f'{cls}: {err}', case, {'suite': suite})
                    continue
                check_identity(sh, doc, db, suite, dict(case))
                # two parser objects alive at once, the later one parsed first: the graph of the earlier one is still its own
                if s == 0 and prev_text is not None and rng.random() < 0.3:
                    from pv.common import parser_class
                    cls_ = parser_class()
                    if cls_ is not None:
                        try:
                            pa, pb = cls_(text), cls_(prev_text)
                            pb.parse()
                            dba = pa.parse()
                        except Exception as e:  # noqa
                            cls2, where2 = monitors.classify_exc(e)
                            sh.violation('parse', f'rejected:{cls2}@two-live-parsers', f'{cls2}: {e}', case, {'suite': 'two-live-parsers'})
                        else:
                            sh.count('obs.docs.two-live-parsers')
                            check_identity(sh, doc, dba, 'two-live-parsers', dict(case))
                if s == 0:
                    prev_text = text
    for k2, v in reach.counts.items():
        if k2.startswith('parser.') or k2.startswith('database'):
            sh.count('reach.' + k2, v)
    return sh


def conclusive(agg, tier):
    c = agg['counters']
    need = ['table.database', 'table.note.parent', 'lookup.fullname', 'lookup.index', 'lookup.alias', 'column.table',
            'column.note.parent', 'column.enum_type', 'index.table', 'index.note.parent', 'index.subject', 'enum.database',
            'enumitem.note.parent', 'ref.database', 'ref.col1', 'ref.col2', 'ref.col1.inline', 'ref.col2.inline',
            'table.get_refs', 'column.get_refs', 'group.database', 'group.items', 'group.note.parent', 'sticky.database', 'project.database',
            'project.note.parent']
    out = [f'assertion class {k} was never evaluated' for k in need if not c.get('obs.assert.' + k)]
    return out + [f'{k} is zero' for k in ('obs.docs.widetwins', 'obs.docs.wstwin') if not c.get(k)]


def replay(v):
    # the identity expectations need the abstract document; the witness text is re-parsed and the
    # document-independent part (back-pointers, lookups) is re-asserted
    sh = Shard(ID)
    case = v.get('case') or {}
    db, err = parse(case.get('text', ''))
    if err is not None:
        sh.violation('parse', v['klass'], f'{type(err).__name__}: {err}', case)
        return sh.violations
    bad = []
    for t in db.tables:
        if t.database is not db or t.note.parent is not t:
            bad.append(f'table {t.name}')
        for c in t.columns:
            if c.table is not t or c.note.parent is not c:
                bad.append(f'column {t.name}.{c.name}')
        for ix in t.indexes:
            if ix.table is not t or ix.note.parent is not ix or any(
                    hasattr(s, 'table') and s.table is not t for s in ix.subjects):
                bad.append(f'index of {t.name}')
    for g in db.table_groups:
        if g.database is not db or (g.note is not None and getattr(g.note, 'parent', None) is not g):
            bad.append(f'group {g.name}')
        if any(all(x is not t for t in db.tables) for x in g.items):
            bad.append(f'group {g.name} items')
    for r in db.refs:
        for c in list(r.col1) + list(r.col2):
            if c.table is None or all(c is not x for x in c.table.columns) or all(c.table is not t for t in db.tables):
                bad.append(f'ref {r!r}')
    if bad:
        sh.violation('identity', v['klass'], '; '.join(bad[:6]), case)
    return sh.violations
