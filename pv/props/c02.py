"""C02 — DBML round trip and fixpoint.

For a database db (parsed from a generated document, API-built from the same
abstract model, or parsed from one of the repository's own .dbml files):
    d1 = db.dbml; db2 = PyDBML(d1); content(db2) == content(db)   (comments aside: C14)
    db2.dbml == d1 byte for byte; the same for cycles 2 and 3.
Every differing attribute is a separate witness, classified by attribute path
and by the feature of the expected value that matters (see classify()).
"""
import glob
import os
import random

from pv import am, gen, surface, walk, monitors, apibuild
from pv.common import parse, skeleton, path_skeleton
from pv.result import Shard, digest

ID = 'C02'
MANIFEST = {
    'text': ('Renders generated databases (parsed origin and API-built origin, plus the repository\'s own sample files) '
             'with the real .dbml, re-parses the text with the real parser and compares content attribute by attribute '
             '(references as the inline and the non-inline sequence), then checks byte-identical re-rendering over three '
             'cycles. Includes a sweep of every identifier site x identifier flavour (bare, digit-first, upper, space, dash, '
             'non-ASCII, punctuation, reserved words). Held = no unexplained disagreement on the executions in the evidence.'),
    'note': 'oracle is the library against itself through pv.walk; the API-built origin relies on pv/apibuild.py using the public constructors correctly; value domain as in DESIGN.md section 2',
    'technique': 'runtime monitoring: round-trip differential (render -> re-parse -> compare, fixpoint over 3 cycles) on generated and API-built databases',
}
LEVEL = 'exploration'
BUDGET = {'quick': 90, 'thorough': 420}
RULE = ('databases from (a) seeded random abstract documents in random surface styles [parsed origin], (b) the same '
        'documents built through pydbml.classes + Database.add [api origin], (c) exhaustive per-element products, '
        '(d) identifier-site x flavour sweep, (e) repository sample .dbml files; a case = one database taken through '
        'render/re-parse/re-render x3; distinct by hash of its first rendering; non-trivial = renders to more than one element')
ASSUMPTIONS = [
    'value domain of DESIGN.md section 2 (identifiers without double quote, backslash, line break; single-line texts outside notes)',
    'pv.walk reads the public attributes faithfully; CPython/pyparsing trusted',
]

KW = ('true', 'false', 'null')
FALSY = ([0, 0.0, False, ''])


def split_refs(c):
    c = dict(c)
    c['refs_inline'] = [r for r in c['refs'] if r['inline']]
    c['refs_plain'] = [r for r in c['refs'] if not r['inline']]
    del c['refs']
    return c


def classify(path, a, b):
    """class key for one differing attribute: path skeleton + the feature of the
    expected value `a` that a known mechanism depends on"""
    sk = path_skeleton(path)
    tag = ''
    if sk.endswith('.default'):
        if isinstance(a, list) and b is None and a[0] in ('int', 'float', 'bool', 'str') and a[1] in FALSY:
            tag = 'falsy-dropped'
        elif isinstance(a, list) and a[0] == 'str' and a[1].lower() in KW and a[1] != 'NULL':
            tag = 'keyword-string'
        elif isinstance(a, list) and a[0] == 'str' and '\n' in a[1]:
            tag = 'multiline'
    elif sk.endswith('.default[]'):
        # the leaves of a default: [kind, value]; a string spelled like a bare keyword comes back as that keyword's value
        if (isinstance(a, str) and a.lower() in KW and a != 'NULL' and (b is True or b is False or b == 'NULL')) or (a == 'str' and b == 'bool'):
            sk, tag = sk[:-2], 'keyword-string'
    elif sk.endswith('.note') or sk.endswith('.text'):
        if isinstance(a, str) and '\n' in a:
            tag = 'multiline'
    return 'content:' + sk + (':' + tag if tag else '')


def roundtrip(sh, db, allow_properties, origin, suite, feats=None, text0=None):
    """the C02 oracle on one database"""
    feats = dict(feats or {}, origin=origin, suite=suite)
    try:
        c0 = split_refs(am.strip_comments(walk.content(db)))
        d1 = db.dbml
    except Exception as e:
        cls, where = monitors.classify_exc(e)
        sh.violation('render', f'render-raises:{cls}@{where}', f'{cls}: {e}',
                     {'kind': 'text', 'text': text0, 'allow_properties': allow_properties}, feats)
        return
    nel = len(db.tables) + len(db.enums) + len(db.refs) + len(db.table_groups) + len(db.sticky_notes) + bool(db.project)
    sh.case(d1, nontrivial=nel > 1, sample={'suite': suite, 'origin': origin, 'dbml': d1[:1200]})
    sh.count(f'obs.cases.{suite}.{origin}')
    case = {'kind': 'roundtrip', 'dbml': d1, 'allow_properties': allow_properties, 'source_text': text0}
    prev_text, prev_c = d1, c0
    for cycle in (1, 2, 3):
        db2, err = parse(prev_text, allow_properties=allow_properties)
        if err is not None:
            cls, where = monitors.classify_exc(err)
            where_ = suite + ('/' + feats['site'] + '/' + feats['flavour'] if 'site' in feats else '')
            if '\n' in str(feats.get('hostile', '')):
                where_ += '/multiline'
            sh.violation('reparse', f'reparse-raises:{cls}@{where_}', f'cycle {cycle}: {cls}: {err}', case, feats)
            return
        try:
            c1 = split_refs(am.strip_comments(walk.content(db2)))
            t2 = db2.dbml
        except Exception as e:
            cls, where = monitors.classify_exc(e)
            sh.violation('render', f'render-raises:{cls}@{where}', f'cycle {cycle}: {cls}: {e}', case, feats)
            return
        items = am.diff_items(prev_c, c1)
        for p, a, b in items:
            k = classify(p, a, b)
            if feats.get('flavour') == 'reserved' and feats.get('site') in ('column_prop_key', 'table_prop_key', 'project_key'):
                k += '@sweep/' + feats['site'] + '/reserved'
            sh.violation('content', k, f'cycle {cycle}: {p}: {a!r} != {b!r}', case, feats)
        if cycle == 1:
            sh.count('obs.reparsed')
            sh.count('obs.attr_diffs', len(items))
        if not items and t2 != prev_text:
            # locate the first differing line for the class key
            l1, l2 = prev_text.split('\n'), t2.split('\n')
            k = next((i for i, (x, y) in enumerate(zip(l1, l2)) if x != y), min(len(l1), len(l2)))
            sh.violation('fixpoint', 'fixpoint:text-drift',
                         f'cycle {cycle}: line {k}: {l1[k:k+1]!r} -> {l2[k:k+1]!r}', case, feats)
            return
        if items:
            return   # later cycles would only repeat the same loss
        prev_text, prev_c = t2, c1
    sh.count('obs.fixpoint_3_cycles')
    # ---- the database that has just been rendered is edited in place; its DBML must again re-parse to what it now is
    rng = random.Random(len(d1))
    try:
        edits = []
        movable = [r for r in db.refs if len(r.col1) == 1 and len(r.col2) == 1 and r.col1[0].table is not r.col2[0].table]
        if movable and len(db.tables) >= 3:
            r = rng.choice(movable)
            side = rng.choice(['col1', 'col2'])
            col = getattr(r, side)[0]
            src, other = col.table, (r.col2 if side == 'col1' else r.col1)[0].table
            dests = [t for t in db.tables if t is not src and t is not other and all(c.name != col.name for c in t.columns)]
            if dests and len(src.columns) > 1 and not any(col in ix.subjects for ix in src.indexes) and \
                    not any(q is not r and (col in q.col1 or col in q.col2) for q in db.refs):
                dst = rng.choice(dests)
                if rng.random() < 0.5:
                    src.delete_column(col)
                    dst.add_column(col)
                    edits.append('move-column')
                else:
                    newc = rng.choice(dst.columns)
                    n1, n2 = ([newc], list(r.col2)) if side == 'col1' else (list(r.col1), [newc])
                    if not any(q is not r and q.type == r.type and list(q.col1) == n1 and list(q.col2) == n2 for q in db.refs):
                        setattr(r, side, [newc])
                        edits.append('retarget-endpoint')
        if db.tables and rng.random() < 0.5:
            rng.choice(db.tables).name += '_edited'
            edits.append('rename-table')
        if db.enums and rng.random() < 0.5:
            rng.choice(db.enums).name += '_edited'
            edits.append('rename-enum')
        if not edits:
            return
        ce = split_refs(am.strip_comments(walk.content(db)))
        de = db.dbml
    except Exception as e:  # noqa
        cls, where = monitors.classify_exc(e)
        if not monitors.is_library_error(e):
            sh.violation('render', f'render-raises-after-edit:{cls}@{where}', f'{cls}: {e}', case, feats)
        return
    sh.count('obs.edited_then_roundtrip')
    dbe, err = parse(de, allow_properties=allow_properties)
    casee = dict(case, dbml=de, edits=edits)
    if err is not None:
        cls, where_ = monitors.classify_exc(err)
        sh.violation('reparse', f'reparse-raises-after-edit:{cls}@{where_}', f'after {edits}: {cls}: {err}', casee, feats)
        return
    import json as _json
    cb = split_refs(am.strip_comments(walk.content(dbe)))
    for side_ in (ce, cb):      # an edited reference may change its place in the order of appearance: compare as multisets
        for key_ in ('refs_inline', 'refs_plain'):
            side_[key_] = sorted(side_[key_], key=lambda x_: _json.dumps(x_, sort_keys=True, default=str))
    for p_, a_, b_ in am.diff_items(ce, cb):
        sh.violation('content', classify(p_, a_, b_) + ('' if classify(p_, a_, b_).count(':') > 1 else '@after-edit'), f'after {edits}: {p_}: {a_!r} != {b_!r}', casee, feats)


# ---------------------------------------------------------------------------
SITES = {   # identifier site -> Namer prefix used by gen.random_doc
    'schema': 's', 'table': 't', 'alias': 'al', 'column': 'c', 'enum': 'e', 'enum_item': 'ei',
    'ref_name': 'r', 'group': 'g', 'project': 'p', 'project_key': 'k', 'sticky': 'sn',
    'table_prop_key': 'pk', 'column_prop_key': 'ck', 'type_quoted': 'qt', 'type_schema': 'ts', 'type_name': 'ty',
}
SWEEP_FLAVOURS = ['bare', 'upper', 'digit', 'space', 'dash', 'unicode', 'punct', 'bslash'] + \
    ['reserved:' + w for w in gen.RESERVED]


def plan(tier, seed):
    return [{'shard': i, 'of': 16} for i in range(16)]


def run_shard(spec, tier, seed, budget_s):
    sh = Shard(ID, budget_s)
    i, n = spec['shard'], spec['of']
    with monitors.ReachMonitor() as reach:
        # (e) repository sample files (shard 0 only)
        if i == 0:
            repo = os.environ.get('PV_REPO', '/repo')
            files = sorted(glob.glob(os.path.join(repo, 'test', 'test_data', '*.dbml'))
                           + glob.glob(os.path.join(repo, 'test', 'test_data', 'docs', '*.dbml'))
                           + [os.path.join(repo, 'test_schema.dbml')])
            for f in files:
                try:
                    text = open(f, encoding='utf8').read()
                except OSError:
                    continue
                db, err = parse(text)
                if err is not None:
                    sh.count('obs.repo_files_rejected')   # the wrong_*.dbml files are meant to fail
                    continue
                roundtrip(sh, db, False, 'parsed', 'repofile', {'file': os.path.basename(f)}, text)
        # (c) products
        prng = random.Random(f'{seed}-products')
        products = []
        for name, fn in (('column', gen.column_product), ('index', gen.index_product),
                         ('header', gen.header_product),
                         ('ref', lambda r: gen.ref_product(r, full_actions=(tier == 'thorough')))):
            for d in fn(prng):
                products.append((name, d))
        for j, (name, doc) in enumerate(products):
            if j % n != i or sh.out_of_time():
                continue
            if tier == 'quick' and name == 'column' and (j // n) % 3:
                continue
            text = surface.render(doc, f'{seed}-{j}')
            db, err = parse(text)
            if err is None:
                roundtrip(sh, db, False, 'parsed', 'product.' + name, None, text)
            else:
                sh.count('obs.source_rejected')
            roundtrip(sh, apibuild.build(doc), False, 'api', 'product.' + name)
        # (d) identifier sweep
        combos = [(s, f) for s in sorted(SITES) for f in SWEEP_FLAVOURS]
        reps = {'quick': 1, 'thorough': 6}[tier]
        for j, (site, flav) in enumerate(combos):
            if j % n != i:
                continue
            for rep in range(reps):
                rng = random.Random(f'{seed}-sweep-{site}-{flav}-{rep}')
                doc = gen.random_doc(rng, 'small', 'plain', flavours=('bare',), props=True,
                                     ml_small_notes=False, override={SITES[site]: flav})
                feats = {'site': site, 'flavour': flav.split(':')[0]}
                suite = 'sweep'
                text = surface.render(doc, f'{seed}-{j}-{rep}', surface.CANON if flav.startswith('reserved') else None)
                db, err = parse(text, allow_properties=True)
                if err is None:
                    roundtrip(sh, db, True, 'parsed', suite, feats, text)
                else:
                    sh.count('obs.source_rejected')
                    sh.count(f'obs.source_rejected.{site}.{flav}')
                try:
                    dba = apibuild.build(doc)
                except Exception as e:
                    sh.count('obs.apibuild_rejected')
                    continue
                roundtrip(sh, dba, True, 'api', suite, feats)
        # (a)+(b) random documents
        rng = random.Random(f'{seed}-random-{i}')
        k = 0
        target = {'quick': 120, 'thorough': 4000}[tier]
        while k < target and not sh.out_of_time():
            k += 1
            size = rng.choice(['tiny', 'small', 'small', 'medium'] + (['large'] if tier == 'thorough' else []))
            if k <= 2:
                size = 'large'          # a few big documents in every tier (many tables, references, indexes)
            ml = rng.random() < 0.15
            props = rng.random() < 0.3
            doc = gen.random_doc(rng, size, 'plain', props=props, ml_small_notes=ml, kwstrings=True)
            suite = 'random.mlnote' if ml else 'random'
            if not ml and rng.random() < 0.2 and gen.same_bare_names(doc, rng):
                suite = 'random.samebare'
            if not ml and rng.random() < 0.25:
                # block-note sites (table / group / project / sticky) round-trip any text: give them rich multi-line
                # texts with quotes and backslashes (no ''' and no blank-only interior line: known findings of C13)
                suite = 'random.richnotes'
                rich = gen.Texts(rng, 'rich')

                def rich_note():
                    t = rich.note('rn', 0.7) + rng.choice(['', "'", ' "', '\\', " it's", "\n'", "\nend'"])
                    while "'''" in t:         # three quotes in a row: KF-C13-triple-quote, not this suite's business
                        t = t.replace("'''", "''")
                    return t
                for t in doc.tables:
                    if t.note is not None:
                        t.note = rich_note()
                for g in doc.groups:
                    if g.note is not None:
                        g.note = rich_note()
                if doc.project is not None and doc.project.note is not None:
                    doc.project.note = rich_note()
                for st in doc.stickies:
                    st.text = rich_note()
            text = surface.render(doc, f'{seed}-{i}-{k}')
            db, err = parse(text, allow_properties=props)
            if err is None:
                roundtrip(sh, db, props, 'parsed', suite, None, text)
            else:
                sh.count('obs.source_rejected')
            roundtrip(sh, apibuild.build(doc), props, 'api', suite)
    for k2, v in reach.counts.items():
        if k2.startswith('renderer.dbml'):
            sh.count('reach.' + k2, v)
    return sh


def conclusive(agg, tier):
    c = agg['counters']
    out = []
    for k in ('obs.cases.random.parsed', 'obs.cases.random.api', 'obs.cases.sweep.parsed', 'obs.cases.sweep.api',
              'obs.cases.repofile.parsed', 'obs.reparsed'):
        if not c.get(k):
            out.append(f'{k} is zero: that part of the workload did not run')
    if c.get('obs.source_rejected', 0) > 0.2 * max(1, agg['evaluations']):
        out.append('more than 20% of the generated source documents were rejected by the parser')
    return out


def replay(v):
    case = v['case']
    sh = Shard(ID)
    ap = case.get('allow_properties', False)
    if case.get('kind') == 'roundtrip':
        src = case.get('source_text')
        db, err = parse(src if src else case['dbml'], allow_properties=ap)
        if err is not None:
            sh.violation('reparse', 'reparse-raises:' + type(err).__name__, str(err), case)
            return sh.violations
        roundtrip(sh, db, ap, 'parsed', 'replay')
    return sh.violations
