"""C06 — Rule-breaking documents are rejected with the error belonging to the rule.

A valid generated document (control: it must parse) gets exactly one injected
rule violation at the abstract-model level; the independent writer spells it in
a random style; the oracle is the rule -> error-class table written from the
property statement."""
import copy
import random

from pv import am, gen, surface, monitors
from pv.common import parse
from pv.result import Shard

ID = 'C06'
MANIFEST = {
    'text': ('Injects exactly one rule violation (duplicate table, alias reuse, alias equal to an existing key, duplicate enum, '
             'duplicate group, table twice in a group, identical reference in every pair of forms inline/short/block, table '
             'without columns, unknown table in ref / inline ref / group, unknown column in ref / inline ref / index) into a '
             'generated valid document, at a random position relative to the declaration it clashes with and in a random '
             'spelling (quoting, public. prefix, alias addressing, (a) vs a), parses it with the real parser and requires the '
             'error class mapped to the rule. The uninjected host must parse (control).'),
    'note': 'rule -> class table is written from the property statement; hosts come from pv.gen and are checked valid by the control parse',
    'technique': 'runtime monitoring: single-fault injection at the model level with a rule->exception-class oracle and a control run',
}
LEVEL = 'fault_enumeration'
BUDGET = {'quick': 60, 'thorough': 360}
RULE = ('(host document, rule, injection variant, style seed); rules x variants enumerated round-robin over seeded random hosts; '
        'distinct by text hash; non-trivial = the host has at least two tables or a reference')
ASSUMPTIONS = ['the host without the injection parses (checked per case; otherwise the case is discarded and counted)',
               'CPython/pyparsing trusted']

DBV, VAL, TNF, CNF, SYN = 'DatabaseValidationError', 'ValidationError', 'TableNotFoundError', 'ColumnNotFoundError', 'SyntaxError'


def _pos(rng, doc, entry, anchor=None):
    """insert a top-level entry before or after `anchor` (or anywhere)"""
    order = doc.order
    if anchor is not None and anchor in order and rng.random() < 0.7:
        i = order.index(anchor)
        order.insert(rng.choice([i, i + 1]), entry)
    else:
        order.insert(rng.randint(0, len(order)), entry)


def _simple_table(schema, name, tag):
    t = am.Table(schema, name)
    t.columns.append(am.Column(f'dc_{tag}', am.ColType('plain', 'int')))
    return t


def inj_dup_table(rng, d):
    i = rng.randrange(len(d.tables))
    a = d.tables[i]
    d.tables.append(_simple_table(a.schema, a.name, 'x'))
    _pos(rng, d, ('t', len(d.tables) - 1), ('t', i))
    return DBV, {'schema': 'public' if a.schema == 'public' else 'other'}


def inj_alias_reuse(rng, d):
    al = [i for i, t in enumerate(d.tables) if t.alias]
    if not al:
        d.tables[0].alias = 'al_shared'
        al = [0]
    i = rng.choice(al)
    t = _simple_table(rng.choice(['public', 'sx']), f'tnew{rng.randrange(10**6)}', 'y')
    t.alias = d.tables[i].alias
    d.tables.append(t)
    _pos(rng, d, ('t', len(d.tables) - 1), ('t', i))
    return DBV, {}


def inj_alias_equals_key(rng, d):
    i = rng.randrange(len(d.tables))
    a = d.tables[i]
    t = _simple_table('public', f'tnew{rng.randrange(10**6)}', 'z')
    t.alias = a.full            # e.g. "public.users": equals the key of table a
    d.tables.append(t)
    _pos(rng, d, ('t', len(d.tables) - 1), ('t', i))
    return DBV, {}


def inj_dup_enum(rng, d):
    if not d.enums:
        d.enums.append(am.Enum(rng.choice(['public', 'se']), 'e_host', [am.EnumItem('i1')]))
        d.order.insert(0, ('e', 0))
    i = rng.randrange(len(d.enums))
    a = d.enums[i]
    between = rng.random() < 0.5
    if between:
        # an enum with the same bare name in another schema is legal; put it between the two clashing copies
        d.enums.append(am.Enum('other_' + a.schema, a.name, [am.EnumItem('between_item')]))
        mid = ('e', len(d.enums) - 1)
    d.enums.append(am.Enum(a.schema, a.name, [am.EnumItem('other_item')]))
    dup = ('e', len(d.enums) - 1)
    if between:
        k = d.order.index(('e', i))
        if rng.random() < 0.5:
            d.order[k + 1:k + 1] = [mid, dup]
        else:
            d.order[k:k] = [dup, mid]
    else:
        _pos(rng, d, dup, ('e', i))
    return DBV, {'between': between}


def inj_dup_group(rng, d):
    if not d.groups:
        d.groups.append(am.Group('g_host', [0]))
        d.order.append(('g', 0))
    i = rng.randrange(len(d.groups))
    d.groups.append(am.Group(d.groups[i].name, []))
    _pos(rng, d, ('g', len(d.groups) - 1), ('g', i))
    return DBV, {}


def inj_group_twice(rng, d):
    ti = rng.randrange(len(d.tables))
    items = [ti, ti]
    for _ in range(rng.randint(0, 2)):
        items.insert(rng.randint(0, len(items)), rng.randrange(len(d.tables)))
    # keep only the one duplicate
    seen, out, dup_done = set(), [], False
    for x in items:
        if x in seen:
            if x == ti and not dup_done:
                out.append(x)
                dup_done = True
            continue
        seen.add(x)
        out.append(x)
    d.groups.append(am.Group(f'gdup{rng.randrange(10**6)}', out))
    _pos(rng, d, ('g', len(d.groups) - 1))
    return VAL, {}


def _std_ref(rng, d, name, acts):
    """a fresh standalone single-column reference over unused endpoints -> index in d.refs"""
    t1 = rng.randrange(len(d.tables))
    t2 = rng.randrange(len(d.tables))
    a, b = d.tables[t1], d.tables[t2]
    c1 = am.Column(f'ra{rng.randrange(10**6)}', am.ColType('plain', 'int'))
    c2 = am.Column(f'rb{rng.randrange(10**6)}', am.ColType('plain', 'int'))
    a.columns.append(c1)
    b.columns.append(c2)
    return t1, c1, t2, c2


def inj_dup_ref(rng, d, forms=None):
    f1, f2 = forms or (rng.choice(['inline', 'short', 'block']), rng.choice(['inline', 'short', 'block']))
    simple = 'inline' in (f1, f2)
    k = 1 if simple else rng.choice([1, 1, 2])
    kind = rng.choice(['>', '<', '-'] if simple else ['>', '<', '-', '<>'])
    name = None if simple else rng.choice([None, 'rdup_name'])
    ou = None if simple else rng.choice([None, 'cascade', 'no action'])
    od = None if simple else rng.choice([None, 'set null', 'restrict'])
    t1, c1, t2, c2 = _std_ref(rng, d, name, (ou, od))
    cols1, cols2 = [c1.name], [c2.name]
    if k == 2:
        x1 = am.Column(f'rc{rng.randrange(10**6)}', am.ColType('plain', 'int'))
        x2 = am.Column(f'rd{rng.randrange(10**6)}', am.ColType('plain', 'int'))
        d.tables[t1].columns.append(x1)
        d.tables[t2].columns.append(x2)
        cols1.append(x1.name)
        cols2.append(x2.name)
    placed = []
    # comments are not part of a reference's identity: one copy may carry one
    cmts = [None, None]
    if rng.random() < 0.35:
        cmts[rng.randrange(2)] = 'a comment on one copy only'
    emptied = False
    for f, cm in zip((f1, f2), cmts):
        if f == 'inline':
            c1.inline_refs.append(am.InlineRef(kind, t2, c2.name))
            placed.append(('t', t1))
        else:
            nm_ = name
            if name is None and not emptied and rng.random() < 0.25:
                nm_ = ''            # the absent name spelled as an empty quoted name (`Ref "": ...`): still the same reference
                emptied = True
            d.refs.append(am.Ref(kind, t1, list(cols1), t2, list(cols2), name=nm_, on_update=ou, on_delete=od, form=f, comment=cm))
            e = ('r', len(d.refs) - 1)
            _pos(rng, d, e, placed[0] if placed else None)
            placed.append(e)
    commented = any(cm is not None and f != 'inline' for f, cm in zip((f1, f2), cmts))
    return DBV, {'forms': f'{f1}+{f2}' + ('+comment' if commented else '') + ('+emptyname' if emptied else ''), 'kind': kind, 'arity': k}


def inj_empty_table(rng, d):
    t = am.Table(rng.choice(['public', 'sx']), f'tempty{rng.randrange(10**6)}')
    how = rng.choice(['bare', 'note', 'alias', 'settings', 'props', 'props+note'])
    if how.startswith('props'):
        # a body that holds only custom properties (option on): still a table without columns
        t.props = [(f'pk{rng.randrange(10**6)}', 'x')] + ([('owner', 'y')] if rng.random() < 0.5 else [])
        d.allow_properties = True
        if how == 'props+note':
            t.note = 'only a note'
    if how == 'settings':
        t.header_color = '#abc'
    if how == 'note':
        t.note = 'only a note'
    if how == 'alias':
        t.alias = f'ale{rng.randrange(10**6)}'
    d.tables.append(t)
    _pos(rng, d, ('t', len(d.tables) - 1))
    # a quoted property name first in the body is a plain grammar failure (still a rejection): both classes belong to the rule there
    return (SYN + '|ParseSyntaxException' if how.startswith('props') else SYN), {'how': how}


def _ghost(d, rng):
    """a table that is never declared (not in d.order).  Half of the time it borrows the bare name and the
    column names of a declared table but lives in a schema that does not exist, so that a lookup which
    forgets the schema would bind it to that table."""
    if rng.random() < 0.5:
        real = rng.choice([t for k_, i_ in d.order if k_ == 't' for t in [d.tables[i_]]])
        # the schema that does not exist: unrelated, or a near miss of the default schema's name
        gs = f'nosuchschema{rng.randrange(10**6)}' if rng.random() < 0.5 else \
            rng.choice(['pub', 'p', 'lic', 'ublic', 'publi', 'public2', 'xpublic', 'PUBLIC', 'Public', 'publicpublic', 'c'])
        if gs == real.schema:
            gs = gs + '_x'
        # ... and the name: the table's bare name, or the alias it also answers to
        gname = real.alias if real.alias and rng.random() < 0.5 else real.name
        if rng.random() < 0.25:
            # the real name with blanks around it (a quoted name keeps its blanks: another, undeclared table)
            gname = rng.choice([gname + ' ', ' ' + gname, ' ' + gname + ' ', gname + '  '])
            gs = real.schema if rng.random() < 0.6 else rng.choice([real.schema + ' ', ' ' + real.schema])
        g = am.Table(gs, gname)
        g.columns = [am.Column(c.name, am.ColType('plain', 'int')) for c in real.columns]
        # make sure the real table has been looked up before (a group over it, declared first)
        if rng.random() < 0.7:
            ri = d.tables.index(real)
            d.groups.append(am.Group(f'gpre{rng.randrange(10**6)}', [ri]))
            d.order.insert(0, ('g', len(d.groups) - 1))
    else:
        g = _simple_table(rng.choice(['public', 'public', 'sg']), f'ghost{rng.randrange(10**6)}', 'g')
    d.tables.append(g)          # NOT in d.order: never declared
    return len(d.tables) - 1


def inj_unknown_table_ref(rng, d):
    g = _ghost(d, rng)
    t = rng.randrange(len(d.tables) - 1)
    a = d.tables[t]
    side = rng.choice([1, 2])
    ends = (g, [d.tables[g].columns[0].name]), (t, [a.columns[0].name])
    if side == 2:
        ends = ends[::-1]
    d.refs.append(am.Ref(rng.choice(gen.REF_KINDS), ends[0][0], ends[0][1], ends[1][0], ends[1][1],
                         form=rng.choice(['short', 'block'])))
    _pos(rng, d, ('r', len(d.refs) - 1))
    return TNF, {'side': side}


def inj_unknown_table_inline(rng, d):
    g = _ghost(d, rng)
    t = d.tables[rng.randrange(len(d.tables) - 1)]
    rng.choice(t.columns).inline_refs.append(am.InlineRef(rng.choice(['>', '<', '-']), g, d.tables[g].columns[0].name))
    return TNF, {}


def inj_unknown_table_group(rng, d):
    g = _ghost(d, rng)
    items = [g]
    for _ in range(rng.randint(0, 2)):
        x = rng.randrange(len(d.tables) - 1)
        if x not in items:
            items.insert(rng.randint(0, len(items)), x)
    d.groups.append(am.Group(f'gg{rng.randrange(10**6)}', items))
    _pos(rng, d, ('g', len(d.groups) - 1))
    return TNF, {}


def _nocol(rng):
    """name of a column that does not exist; sometimes with characters that mean something to a string formatter"""
    n = rng.randrange(10**6)
    return rng.choice([f'nocol{n}', f'nocol{n}', f'nocol{{v{n}}}', f'{{0}}nocol{n}', f'nocol{n}{{', f'no%scol{n}', f'nocol{n}}}', f'{{self.name}}{n}',
                       # ... that looks like a position or like a function call (it is a NAME all the same)
                       '0', '1', '-1', '2', f'lower(nocol{n})', f'ghost({n % 7})', f'date_trunc (nocol{n})', f'f{n}()'])


def inj_unknown_col_ref(rng, d):
    t1 = rng.randrange(len(d.tables))
    t2 = rng.randrange(len(d.tables))
    k = rng.choice([1, 1, 2])
    a, b = d.tables[t1], d.tables[t2]
    c1 = [a.columns[0].name] + (['extra_a'] if k == 2 else [])
    c2 = [b.columns[0].name] + (['extra_b'] if k == 2 else [])
    if k == 2:
        a.columns.append(am.Column('extra_a', am.ColType('plain', 'int')))
        b.columns.append(am.Column('extra_b', am.ColType('plain', 'int')))
    side = rng.choice([1, 2])
    pos = rng.randrange(k)
    (c1 if side == 1 else c2)[pos] = _nocol(rng)
    d.refs.append(am.Ref(rng.choice(gen.REF_KINDS), t1, c1, t2, c2, form=rng.choice(['short', 'block'])))
    _pos(rng, d, ('r', len(d.refs) - 1))
    return CNF, {'side': side, 'arity': k}


def inj_unknown_col_inline(rng, d):
    t = d.tables[rng.randrange(len(d.tables))]
    t2 = rng.randrange(len(d.tables))
    rng.choice(t.columns).inline_refs.append(am.InlineRef(rng.choice(['>', '<', '-']), t2, _nocol(rng)))
    return CNF, {}


def inj_unknown_col_index(rng, d):
    t = d.tables[rng.randrange(len(d.tables))]
    subj = [('col', _nocol(rng))]
    if rng.random() < 0.5:
        subj.insert(rng.randint(0, 1), ('col', t.columns[0].name))
    if rng.random() < 0.3:
        subj.append(('expr', 'now()'))
    t.indexes.insert(rng.randint(0, len(t.indexes)), am.Index(subj, pk=rng.random() < 0.2))
    return CNF, {}


def inj_tableless(rng, d):
    """a document that declares no table at all and names one in a reference or in a table group"""
    d.order = [(k_, i_) for k_, i_ in d.order if k_ in ('e', 'p', 's')]
    d.refs, d.groups = [], []
    a = _simple_table(rng.choice(['public', 'sg']), f'ghost{rng.randrange(10**6)}', 'a')
    b = _simple_table(rng.choice(['public', 'sg']), f'ghost{rng.randrange(10**6)}', 'b')
    d.tables += [a, b]
    ia, ib = len(d.tables) - 2, len(d.tables) - 1
    how = rng.choice(['ref-short', 'ref-block', 'group'])
    if how == 'group':
        d.groups.append(am.Group(f'gg{rng.randrange(10**6)}', [ia] + ([ib] if rng.random() < 0.5 else [])))
        _pos(rng, d, ('g', 0))
    else:
        d.refs.append(am.Ref(rng.choice(gen.REF_KINDS), ia, [a.columns[0].name], ib, [b.columns[0].name], form=how.split('-')[1]))
        _pos(rng, d, ('r', 0))
    return TNF, {'how': how}


RULES = {
    'unknown-table-in-tableless-document': inj_tableless,
    'duplicate-table': inj_dup_table, 'alias-reuse': inj_alias_reuse, 'alias-equals-key': inj_alias_equals_key,
    'duplicate-enum': inj_dup_enum, 'duplicate-group': inj_dup_group, 'table-twice-in-group': inj_group_twice,
    'duplicate-reference': inj_dup_ref, 'table-without-columns': inj_empty_table,
    'unknown-table-in-ref': inj_unknown_table_ref, 'unknown-table-in-inline-ref': inj_unknown_table_inline,
    'unknown-table-in-group': inj_unknown_table_group, 'unknown-column-in-ref': inj_unknown_col_ref,
    'unknown-column-in-inline-ref': inj_unknown_col_inline, 'unknown-column-in-index': inj_unknown_col_index,
}
FORM_PAIRS = [(a, b) for a in ('inline', 'short', 'block') for b in ('inline', 'short', 'block')]


def plan(tier, seed):
    return [{'shard': i, 'of': 16} for i in range(16)]


def run_shard(spec, tier, seed, budget_s):
    sh = Shard(ID, budget_s)
    i = spec['shard']
    rng = random.Random(f'{seed}-c06-{i}')
    names = sorted(RULES)
    target = {'quick': 12, 'thorough': 400}[tier]     # hosts per shard; every host gets every rule
    k = 0
    with monitors.ReachMonitor() as reach:
        while k < target and not sh.out_of_time():
            k += 1
            host = gen.random_doc(rng, rng.choice(['tiny', 'small', 'small', 'medium']), 'plain', comments=rng.random() < 0.5)
            ctl_text = surface.render(host, f'{seed}-{i}-{k}-ctl')
            db, err = parse(ctl_text)
            if err is not None:
                sh.count('obs.host_rejected')   # C01's business, not a C06 case
                continue
            sh.count('obs.hosts')
            variants = []
            for rule in names:
                if rule == 'duplicate-reference':
                    variants += [(rule, fp) for fp in FORM_PAIRS]
                else:
                    variants += [(rule, None)] * 2
            for rule, fp in variants:
                d = copy.deepcopy(host)
                try:
                    want, feats = RULES[rule](rng, d, fp) if fp else RULES[rule](rng, d)
                except Exception as e:   # harness problem: never a verdict about pydbml
                    sh.inconclusive.append(f'injector {rule} failed: {type(e).__name__}: {e}')
                    continue
                text = surface.render(d, f'{seed}-{i}-{k}-{rule}-{fp}')
                if rng.random() < 0.25:
                    # block comments written with extra stars, before and after everything (a comment ends at the first */)
                    text = rng.choice(['/** header **/', '/*** generated ***/', '/* a **/']) + '\n' + text + '\n' + rng.choice(['/* footer */', '/** end **/']) + '\n'
                    sh.count('obs.cases_between_starred_comments')
                feats = dict(feats, rule=rule)
                sh.case(text, nontrivial=len(host.tables) > 1 or bool(host.refs),
                        sample={'rule': rule, 'expect': want, 'features': feats, 'text': text[:1000]})
                sh.count('obs.cases.' + rule)
                props = rng.random() < 0.4 or str(feats.get('how', '')).startswith('props')          # the rules do not depend on the option
                db, err = parse(text, allow_properties=props)
                sh.count('obs.option.' + ('on' if props else 'off'))
                case = {'kind': 'reject', 'text': text, 'expect': want, 'rule': rule, 'props': props}
                sub = rule + (':' + feats['forms'] if 'forms' in feats else '')
                if err is None:
                    sh.violation('accept', f'accepted:{sub}', f'rule {rule} ({feats}): document was accepted', case, feats)
                else:
                    cls, where = monitors.classify_exc(err)
                    sh.count(f'obs.raised.{cls}@{where}')
                    if cls not in want.split('|'):
                        sh.violation('class', f'wrong-error:{sub}:{cls}', f'rule {rule}: raised {cls} ({err}) at {where}, expected {want}',
                                     case, feats)
                    else:
                        sh.count('obs.rejected_with_expected_class')
    for k2, v in reach.counts.items():
        if k2.startswith('database:') or k2.startswith('parser.parser'):
            sh.count('reach.' + k2, v)
    return sh


def conclusive(agg, tier):
    c = agg['counters']
    out = [f'rule {r} was never exercised' for r in RULES if not c.get('obs.cases.' + r)]
    if c.get('obs.host_rejected', 0) > c.get('obs.hosts', 0):
        out.append('most hosts were rejected by the control parse')
    return out


def replay(v):
    sh = Shard(ID)
    case = v['case']
    db, err = parse(case['text'], allow_properties=case.get('props', False))
    if err is None:
        sh.violation('accept', v['klass'], 'document is (still) accepted', case, v.get('features'))
    elif type(err).__name__ not in case['expect'].split('|'):
        sh.violation('class', v['klass'], f'raises {type(err).__name__}: {err}; expected {case["expect"]}', case, v.get('features'))
    return sh.violations
