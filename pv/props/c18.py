"""C18 — SQL creates a table before any table that references it inline."""
import random

from pv import am, gen, surface, monitors, apibuild, sqlread
from pv.common import parse
from pv.result import Shard, digest

ID = 'C18'
MANIFEST = {
    'text': ('Generates databases whose inline-reference graph is a chain, star, tree, layered DAG, diamond, disconnected mix or '
             'random DAG (2-12 tables, all inline kinds, both declaration orders, cross-schema and equal bare names), renders '
             '.sql with the real code, reads the CREATE TABLE order back with the independent DDL reader and checks every '
             'inline FOREIGN KEY edge target-before-holder; plus, for all databases including cyclic ones, that the CREATE '
             'TABLEs are a permutation of the tables and that the order is identical across repeated renders, across '
             'separately built equal databases and across interpreter hash seeds (16 shards with different PYTHONHASHSEED).'),
    'note': 'the precedence clause is violated by the unchanged tree (known finding KF-C18-holder-first, pinned by two repository tests); an out-of-order edge is absorbed only when the whole observed order equals the order predicted by my model of that counting rule',
    'technique': 'runtime monitoring: offline order checker over recorded DDL + determinism monitor across processes/hash seeds',
}
LEVEL = 'exploration'
BUDGET = {'quick': 60, 'thorough': 300}
RULE = ('graph-shaped documents: 9 shapes x 2..12 tables x kinds {>,<,-} per edge, random schemas; each in parsed and API-built '
        'origin; a case = one database whose CREATE TABLE order is read back; distinct by hash of (edges, table names order); '
        'non-trivial = at least one inline edge; determinism clause: a fixed set of documents rendered in every shard '
        '(each shard = fresh process with its own PYTHONHASHSEED) and compared by digest')
ASSUMPTIONS = ['table names are unique tokens except in the labelled equal-bare-name class', 'CPython/pyparsing trusted']


def predicted_holder_first(doc, tables_in_db_order):
    """my model of the known mechanism (sort by number of inline > / < FKs held, keyed by bare name, stable, descending)"""
    cnt = {}
    for how, idx, col, r in am.ref_order(doc):
        if how != 'inline':
            continue
        if r.kind == '>':
            nm_ = doc.tables[idx].name
        elif r.kind == '<':
            nm_ = doc.tables[r.target].name
        else:
            continue
        cnt[nm_] = cnt.get(nm_, 0) + 1
    return sorted(tables_in_db_order, key=lambda i: -cnt.get(doc.tables[i].name, 0))


def qn(t):
    return (t.name,) if t.schema == 'public' else (t.schema, t.name)


def check(sh, doc, edges, db, origin, suite, acyclic=True):
    try:
        sql1 = db.sql
        sql2 = db.sql
    except Exception as e:
        cls, where = monitors.classify_exc(e)
        sh.violation('render', f'sql-raises:{cls}@{where}', f'{cls}: {e}', None, {'suite': suite})
        return None
    names = [qn(t) for t in doc.tables]
    sh.case([edges, names, origin], nontrivial=bool(edges),
            sample={'suite': suite, 'origin': origin, 'edges': edges, 'tables': [list(x) for x in names]})
    sh.count(f'obs.cases.{suite}')
    rd = sqlread.read(sql1)
    order = [tuple(s['name']) for s in rd['statements'] if s['kind'] == 'create_table']
    case = {'kind': 'order', 'edges': edges, 'tables': [list(x) for x in names], 'order': [list(x) for x in order],
            'text': surface.render(doc, 0, surface.CANON)}
    # ---- permutation clause
    joins = set()
    for r in doc.refs:
        if r.kind == '<>':
            a, b = doc.tables[r.t1], doc.tables[r.t2]
            joins.add(qn(am.Table(a.schema, f'{a.name}_{b.name}')))
    core = [o for o in order if o not in joins]
    if sorted(core) != sorted(names):
        sh.violation('perm', 'permutation:create-tables-differ-from-model', f'{core} vs tables {names}', case, {'suite': suite})
        return None
    # ---- determinism within the process
    if sql1 != sql2:
        sh.violation('det', 'determinism:repeated-render-differs', 'two consecutive .sql differ', case, {'suite': suite})
    # ---- precedence clause
    if acyclic:
        pos = {o: k for k, o in enumerate(core)}
        bad = [(h, t) for h, t in edges if pos[names[t]] > pos[names[h]]]
        sh.count('obs.edges_checked', len(edges))
        sh.count('obs.edges_in_order', len(edges) - len(bad))
        if bad:
            db_order = [i for k, i in (doc.order or doc.default_order().order) if k == 't']
            pred = [names[i] for i in predicted_holder_first(doc, db_order)]
            explained = pred == core
            sh.count('obs.docs_with_out_of_order_edge')
            if explained:
                sh.count('class.out_of_order_explained_by_holder_first')
            sh.violation('order', 'order:target-after-holder:' + ('holder-first-sort' if explained else 'unexplained'),
                         f'edges (holder,target) out of order: {bad[:4]}; CREATE TABLE order {core}; '
                         f'holder-first model predicts {pred}', case, {'suite': suite, 'explained': explained})
        else:
            sh.count('obs.docs_all_edges_in_order')
    return core


def table_order(db):
    return [tuple(s['name']) for s in sqlread.read(db.sql)['statements'] if s['kind'] == 'create_table']


def model_only(sh, rng, n):
    """'depends only on the model': after in-place edits or deletions the order must be the one a freshly built
    database with the same content gets, and the CREATE TABLEs must be exactly the tables of the database"""
    import copy
    for k in range(n):
        if sh.out_of_time():
            break
        shape = rng.choice(gen.GRAPH_SHAPES)
        doc, edges = gen.graph_doc(rng, shape, rng.randint(2, 9))
        # self references (a hierarchy table): legal, and the table must still be listed exactly once
        for t_i, t in enumerate(doc.tables):
            if rng.random() < 0.25:
                c = am.Column(f'selfref{t_i}q', am.ColType('plain', 'int'))
                c.inline_refs.append(am.InlineRef(rng.choice(['>', '<', '-']), t_i, t.columns[0].name))
                t.columns.append(c)
        db = apibuild.build(doc)
        twin = apibuild.build(doc)              # built identically, NOT rendered before the edits below
        twin_of = {id(a_): b_ for a_, b_ in zip(db.tables, twin.tables)}      # (taken now: positions may not be trusted later)
        names = [qn(t) for t in doc.tables]
        try:
            first = table_order(db)
        except Exception as e:  # noqa
            cls, where = monitors.classify_exc(e)
            sh.violation('render', f'sql-raises:{cls}@{where}', f'{cls}: {e}', None, {'suite': 'modelonly'})
            continue
        sh.case(['modelonly', edges, names, k], nontrivial=True, sample={'suite': 'modelonly', 'edges': edges, 'first_order': [list(x) for x in first]})
        sh.count('obs.cases.modelonly')
        joins = {qn(am.Table(doc.tables[r.t1].schema, f'{doc.tables[r.t1].name}_{doc.tables[r.t2].name}')) for r in doc.refs if r.kind == '<>'}
        if sorted(o for o in first if o not in joins) != sorted(names):
            sh.violation('perm', 'permutation:create-tables-differ-from-model', f'{first} vs {names} (self references present)',
                         {'kind': 'order', 'text': surface.render(doc, 0, surface.CANON), 'edges': edges, 'tables': [list(x) for x in names]}, {'suite': 'modelonly'})
            continue
        # (1) edit in place: flip inline-ness / kind of references, then compare with a fresh build of the edited model
        d2 = copy.deepcopy(doc)
        flips = 0
        inl = [r for r in db.refs if r.inline]
        rng.shuffle(inl)
        want_inline = {}
        pos = {id(r): k_ for k_, r in enumerate(db.refs)}
        for r in inl[:rng.randint(1, 3)]:
            r.inline = False
            twin.refs[pos[id(r)]].inline = False
            flips += 1
        if rng.random() < 0.4:
            # a reference becomes many-to-many, everything is rendered / inspected, and it becomes what it was again
            # (the twin is taken through the same values without being looked at in between)
            for r in rng.sample(list(db.refs), min(2, len(db.refs))):
                old_t, old_i = r.type, r.inline
                tw = twin.refs[pos[id(r)]]
                r.type = tw.type = '<>'
                try:
                    db.sql, db.dbml, r.inline, r.sql
                except Exception:  # noqa
                    pass
                r.type = tw.type = old_t
                flips += 1
            sh.count('obs.many_to_many_and_back')
        if rng.random() < 0.5:          # half of the time ONLY inline-ness changes (references still compare equal)
            for r in db.refs:
                if rng.random() < 0.3 and r.type in ('>', '<'):
                    r.type = '<' if r.type == '>' else '>'
                    twin.refs[pos[id(r)]].type = r.type
                    flips += 1
        if rng.random() < 0.5 and len(db.tables) >= 3:
            # the column that holds a foreign key moves to another table (delete_column + add_column): from now on that
            # table holds the key.  Same edit on the twin that was never rendered.
            cand = [r for r in db.refs if r.inline and len(r.col1) == 1 and len(r.col2) == 1 and r.col1[0].table is not r.col2[0].table]
            if cand:
                r = rng.choice(cand)
                side = rng.choice([1, 2])
                col = (r.col1 if side == 1 else r.col2)[0]
                src = col.table
                other = (r.col2 if side == 1 else r.col1)[0].table
                dests = [t for t in db.tables if t is not src and t is not other]
                if dests and len(src.columns) > 1 and not any(col in ix.subjects for ix in src.indexes):
                    dst = rng.choice(dests)
                    ci = src.columns.index(col)
                    used_elsewhere = [q for q in db.refs if q is not r and (col in q.col1 or col in q.col2)]
                    if not used_elsewhere and all(c_.name != col.name for c_ in dst.columns):
                        src.delete_column(col)
                        dst.add_column(col)
                        tcol = twin_of[id(src)].columns[ci]
                        twin_of[id(src)].delete_column(tcol)
                        twin_of[id(dst)].add_column(tcol)
                        flips += 1
                        sh.count('obs.fk_column_moved')
        detached_fk = False
        if rng.random() < 0.2:
            # the column that holds a key is deleted from its table while the reference stays in the database (a dangling
            # reference): rendering either still works or refuses with the library's own error, the same for the twin
            cand = [r for r in db.refs if r.inline and len(r.col1) == 1 and len(r.col2) == 1 and r.col1[0].table is not r.col2[0].table
                    and r.col1[0].table is not None and r.col2[0].table is not None]
            if cand:
                r = rng.choice(cand)
                col = (r.col1 if r.type in ('>', '-') else r.col2)[0]
                src = col.table
                if len(src.columns) > 1 and not any(col in ix.subjects for ix in src.indexes) and \
                        not any(q is not r and (col in q.col1 or col in q.col2) for q in db.refs):
                    ci = src.columns.index(col)
                    src.delete_column(col)
                    twin_of[id(src)].delete_column(twin_of[id(src)].columns[ci])
                    detached_fk = True
                    sh.count('obs.fk_column_detached')
        if detached_fk:
            outs = []
            for d_ in (db, twin):
                try:
                    outs.append(('OK', table_order(d_)))
                except Exception as e:  # noqa
                    cls, where = monitors.classify_exc(e)
                    outs.append(('EXC', cls))
                    if not monitors.is_library_error(e):
                        sh.violation('render', f'model-only:sql-raises-with-dangling-reference:{cls}', f'{cls}: {e} at {where}',
                                     {'kind': 'modelonly', 'text': surface.render(doc, 0, surface.CANON)}, {'suite': 'modelonly'})
            if outs[0] != outs[1]:
                sh.violation('det', 'model-only:dangling-reference-outcome-depends-on-earlier-rendering', f'{outs[0]} vs never rendered twin {outs[1]}',
                             {'kind': 'modelonly', 'text': surface.render(doc, 0, surface.CANON)}, {'suite': 'modelonly'})
            continue
        try:
            after = table_order(db)
            from pv.clone import clone
            # an unrelated database is rendered in between, so that nothing remembered from the renderings of
            # `db` (a cache keyed on equal tables / references, say) can answer for the fresh build
            decoy, _e = gen.graph_doc(rng, 'chain', 3)
            table_order(apibuild.build(decoy))
            fresh = table_order(clone(db))
            table_order(apibuild.build(decoy))
            twin_order = table_order(twin)
            if twin_order != after:
                sh.violation('det', 'model-only:order-depends-on-whether-the-database-was-rendered-before-the-edit',
                             f'rendered, edited, rendered: {after}; identically built and edited, rendered once: {twin_order}',
                             {'kind': 'modelonly', 'text': surface.render(doc, 0, surface.CANON)}, {'suite': 'modelonly'})
            again = table_order(db)
            if again != after:
                sh.violation('det', 'model-only:order-changes-when-other-databases-are-rendered-in-between',
                             f'{after} then, after rendering an unrelated database, {again}',
                             {'kind': 'modelonly', 'text': surface.render(doc, 0, surface.CANON)}, {'suite': 'modelonly'})
        except Exception as e:  # noqa
            cls, where = monitors.classify_exc(e)
            sh.violation('render', f'sql-raises-after-edit:{cls}@{where}', f'{cls}: {e}', None, {'suite': 'modelonly'})
            continue
        sh.count('obs.edit_then_render')
        if after != fresh:
            sh.violation('det', 'model-only:order-after-edit-differs-from-fresh-build',
                         f'after {flips} in-place reference edits the order is {after}, a freshly built equal database gives {fresh}',
                         {'kind': 'modelonly', 'text': surface.render(doc, 0, surface.CANON)}, {'suite': 'modelonly'})
        # (2) delete a table (references are not cascaded): the script must list exactly the remaining tables
        if len(db.tables) > 1:
            victim = rng.choice(db.tables)
            vq = (victim.name,) if victim.schema == 'public' else (victim.schema, victim.name)
            db.delete(victim)
            try:
                rest = table_order(db)
            except Exception as e:  # noqa
                cls, where = monitors.classify_exc(e)
                sh.count('obs.delete_then_render_raised.' + cls)
                if cls not in ('TableNotFoundError',):
                    sh.violation('perm', f'model-only:sql-raises-after-delete:{cls}', f'after deleting {vq}: {cls}: {e}',
                                 {'kind': 'modelonly', 'text': surface.render(doc, 0, surface.CANON)}, {'suite': 'modelonly'})
                continue
            sh.count('obs.delete_then_render')
            remaining = [(t.name,) if t.schema == 'public' else (t.schema, t.name) for t in db.tables]
            got = [o for o in rest if o not in joins]
            if sorted(got) != sorted(remaining):
                sh.violation('perm', 'model-only:create-tables-after-delete-differ-from-tables',
                             f'after deleting {vq}: CREATE TABLE {got} vs db.tables {remaining}',
                             {'kind': 'modelonly', 'text': surface.render(doc, 0, surface.CANON)}, {'suite': 'modelonly'})


def plan(tier, seed):
    return [{'shard': i, 'of': 16, 'hashseed': (seed * 16 + i) % 4294967295} for i in range(16)]


def run_shard(spec, tier, seed, budget_s):
    sh = Shard(ID, budget_s)
    i, n = spec['shard'], spec['of']
    # ---- determinism across processes / hash seeds: same documents in every shard
    drng = random.Random(f'{seed}-det')
    for d in range({'quick': 30, 'thorough': 150}[tier]):
        shape = drng.choice(gen.GRAPH_SHAPES)
        doc, edges = gen.graph_doc(drng, shape, drng.randint(2, 10), same_bare_names=drng.random() < 0.3,
                                   cyclic=drng.random() < 0.3)
        for origin in ('api', 'api2', 'parsed'):
            if origin == 'parsed':
                db, err = parse(surface.render(doc, d, {'addr': 'explicit'} if 'alias-shadow' in doc.classes else None))
                if err is not None:
                    continue
            else:
                db = apibuild.build(doc)
            sql = db.sql
            order = [tuple(s['name']) for s in sqlread.read(sql)['statements'] if s['kind'] == 'create_table']
            sh.count(f'det|{d}|{digest(order)}')
            sh.count('obs.det_renders')
    # ---- graph workload
    rng = random.Random(f'{seed}-graphs-{i}')
    model_only(sh, random.Random(f'{seed}-modelonly-{i}'), {'quick': 80, 'thorough': 1000}[tier])
    # ---- a large schema (more than a thousand tables): counts and positions of a different magnitude
    if i < {'quick': 4, 'thorough': 16}[tier]:
        big, bedges = gen.graph_doc(rng, ['tree', 'layered', 'chain_rev', 'tree'][i % 4], rng.randint(1001, 1400), case_twins=False)
        check(sh, big, bedges, apibuild.build(big), 'api', 'large', acyclic=True)
        sh.count('obs.large_schemas')
    k = 0
    target = {'quick': 400, 'thorough': 5000}[tier]
    while k < target and not sh.out_of_time():
        k += 1
        shape = gen.GRAPH_SHAPES[k % len(gen.GRAPH_SHAPES)]
        nn = rng.randint(2, 12)
        same = rng.random() < 0.1
        cyc = rng.random() < 0.15
        doc, edges = gen.graph_doc(rng, shape, nn, same_bare_names=same, cyclic=cyc)
        rng.shuffle(doc.order)
        suite = 'cyclic' if cyc else ('samebare' if same else 'dag.' + shape)
        text = surface.render(doc, f'{seed}-{i}-{k}', {'addr': 'explicit'} if 'alias-shadow' in doc.classes else None)
        db, err = parse(text)
        if err is None:
            check(sh, doc, edges, db, 'parsed', suite, acyclic=not cyc)
        else:
            sh.count('obs.source_rejected')
        check(sh, doc, edges, apibuild.build(doc), 'api', suite, acyclic=not cyc)
    return sh


def finalize(agg):
    """cross-shard determinism: every fixed document must have exactly one order digest"""
    seen = {}
    for key in agg['counters']:
        if key.startswith('det|'):
            _, d, dig = key.split('|')
            seen.setdefault(d, set()).add(dig)
    out = []
    for d, digs in seen.items():
        if len(digs) > 1:
            out.append({'property': ID, 'sub': 'det', 'klass': 'determinism:order-differs-across-processes-or-builds',
                        'detail': f'fixed document #{d}: {len(digs)} distinct CREATE TABLE orders across shards '
                                  f'(fresh processes, different PYTHONHASHSEED) / separately built equal databases',
                        'case': {'kind': 'det', 'doc': d}, 'features': {}})
    agg['counters'] = {k: v for k, v in agg['counters'].items() if not k.startswith('det|')}
    agg['counters']['obs.det_documents_compared'] = len(seen)
    return out


def conclusive(agg, tier):
    c = agg['counters']
    out = []
    for k in ('obs.cases.modelonly', 'obs.edit_then_render', 'obs.delete_then_render', 'obs.edges_checked', 'obs.det_documents_compared', 'obs.cases.cyclic', 'obs.cases.samebare',
              'obs.cases.dag.chain', 'obs.cases.dag.tree', 'obs.cases.dag.random_dag', 'obs.det_renders'):
        if not c.get(k):
            out.append(f'{k} is zero')
    return out


def replay(v):
    sh = Shard(ID)
    case = v.get('case') or {}
    if case.get('kind') == 'order' and case.get('text'):
        db, err = parse(case['text'])
        if err is None:
            order = [list(s['name']) for s in sqlread.read(db.sql)['statements'] if s['kind'] == 'create_table']
            names = case['tables']
            core = [o for o in order if o in names]
            pos = {tuple(o): k for k, o in enumerate(core)}
            bad = [(h, t) for h, t in case['edges'] if pos[tuple(names[t])] > pos[tuple(names[h])]]
            if sorted(core) != sorted(names):
                sh.violation('perm', 'permutation:create-tables-differ-from-model', f'{core} vs {names}', case)
            elif bad:
                sh.violation('order', v['klass'], f'still out of order: {bad[:4]} in {core}', case, v.get('features'))
    return sh.violations
