"""C15 — Arbitrary properties are honoured exactly when enabled."""
import random

from pv import am, gen, surface, walk, monitors, apibuild
from pv.common import parse
from pv.result import Shard

ID = 'C15'
MANIFEST = {
    'text': ('With the option on: generated documents with 0-3 table properties and 0-3 properties per column, in any position '
             'among ordinary settings, one-line and multi-line lists, all three string styles, are parsed with the real parser '
             'and compared (keys, values, order, owner, all other settings) with the abstract model; db.allow_properties must '
             'be True and db.dbml must re-parse to the same properties. With the option off: the same text must be a syntax '
             'error, databases carrying properties must render none, and flipping db.allow_properties at any time must flip '
             'rendering. Differential on/off over property-free documents: content and both renderings must be identical.'),
    'note': 'property keys are plain-word or quoted identifiers that are not settings keywords (see KF-C02-reserved-prop-key); values are single-line texts (multi-line values belong to C13)',
    'technique': 'runtime monitoring: model-based oracle under both configurations + on/off differential + flag-flip monitor',
}
LEVEL = 'exploration'
BUDGET = {'quick': 60, 'thorough': 300}
RULE = ('(document, option value, style); documents from the property product (0..3 table x 0..3 column properties x position x '
        'layout x string style) and seeded random documents with and without properties; distinct by text hash + option; '
        'non-trivial = document has a property, or the on/off differential was evaluated on a multi-element document')
ASSUMPTIONS = ['CPython/pyparsing trusted']


def has_props(doc):
    return any(t.props or any(c.props for c in t.columns) for t in doc.tables)


def count_props(c):
    return sum(len(t['properties']) + sum(len(col['properties']) for col in t['columns']) for t in c['tables'])


def check(sh, doc, sseed, suite):
    text = surface.render(doc, sseed)
    withp = has_props(doc)
    sh.case([text, suite], nontrivial=withp or len(doc.tables) > 1, sample={'suite': suite, 'with_properties': withp, 'text': text[:700]})
    sh.count(f'obs.docs.{suite}.{"props" if withp else "noprops"}')
    case = {'kind': 'props', 'text': text}
    on, err_on = parse(text, allow_properties=True)
    off, err_off = parse(text)
    exp = am.expected(doc)
    # ---------------- the option has the same effect when the source is a path or an open file
    if hash(text) % 4 == 0:
        import os
        import tempfile
        from pathlib import Path
        from pydbml import PyDBML
        fd, pth = tempfile.mkstemp(suffix='.dbml', dir=os.environ.get('PV_SCRATCH') or None)
        try:
            with os.fdopen(fd, 'w', encoding='utf8') as f:
                f.write(text)
            for route in ('path', 'file'):
                try:
                    if route == 'path':
                        dbf = PyDBML(Path(pth), allow_properties=True)
                    else:
                        with open(pth, encoding='utf8') as fh:
                            dbf = PyDBML(fh, allow_properties=True)
                    okf = dbf.allow_properties is True and (err_on is None and walk.content(dbf) == walk.content(on))
                except Exception as e:  # noqa
                    okf = err_on is not None and type(e) is type(err_on)
                sh.count('obs.option_through_file_routes')
                if not okf:
                    sh.violation('on', f'on:option-lost-on-{route}-route', f'PyDBML({route}, allow_properties=True) differs from the string route', case)
        finally:
            os.unlink(pth)
    # ---------------- a leading byte order mark does not take the option away
    if hash(text) % 2 == 0:
        onb, err_onb = parse('\ufeff' + text, allow_properties=True)
        sh.count('obs.option_with_bom')
        okb = (err_on is None and err_onb is None and onb.allow_properties is True and walk.content(onb) == walk.content(on)) or \
              (err_on is not None and err_onb is not None and type(err_onb) is type(err_on))
        if not okb:
            sh.violation('on', 'on:option-lost-behind-a-byte-order-mark', 'the same text with a leading U+FEFF and allow_properties=True differs', case)
    # ---------------- columns / tables built through the API without properties own their dict
    if hash(text) % 5 == 0:
        from pydbml.classes import Column, Table
        c1_, c2_ = Column('apia', 'int'), Column('apib', 'int')
        t1_, t2_ = Table('apit'), Table('apiu')
        c1_.properties['injected_key'] = 'x'
        t1_.properties['injected_key'] = 'x'
        c3_ = Column('apic', 'int')
        sh.count('obs.api_built_property_dicts')
        leaked = [n_ for n_, o_ in (('Column', c2_), ('Column(later)', c3_), ('Table', t2_), ('Table(later)', Table('apiv'))) if o_.properties]
        if leaked:
            sh.violation('on', 'on:properties-dict-shared-between-objects', f'API-built objects without properties share one dict: {leaked}', case)
        c1_.properties.clear()
        t1_.properties.clear()
    # ---------------- the option passed by position (documented order: source, allow_properties, ...)
    if hash(text) % 3 == 0:
        from pydbml import PyDBML
        for label, call in (('PyDBML(text, True)', lambda: PyDBML(text, True)), ('PyDBML.parse(text, True)', lambda: PyDBML.parse(text, True)),
                            ('PyDBML().parse(text, True)', lambda: PyDBML().parse(text, True))):
            try:
                dbp = call()
                okp = err_on is None and dbp.allow_properties is True and walk.content(dbp) == walk.content(on)
            except Exception as e:  # noqa
                okp = err_on is not None and type(e) is type(err_on)
            sh.count('obs.option_by_position')
            if not okp:
                sh.violation('on', f'on:option-by-position-differs:{label}', f'{label} differs from allow_properties=True by keyword', case)
        from pv.common import parser_class
        cls_ = parser_class()
        if cls_ is not None:
            try:
                dbp = cls_(text, True).parse()
                okp = err_on is None and dbp.allow_properties is True and walk.content(dbp) == walk.content(on)
            except Exception as e:  # noqa
                okp = err_on is not None and type(e) is type(err_on)
            sh.count('obs.option_by_position')
            if not okp:
                sh.violation('on', 'on:option-by-position-differs:parser-class', 'the parser class called with (text, True) differs from allow_properties=True by keyword', case)
    # ---------------- option on
    if err_on is not None:
        cls, where = monitors.classify_exc(err_on)
        sh.violation('on', f'on:rejected:{cls}:{suite}', f'{cls}: {err_on}', case)
        return
    if on.allow_properties is not True:
        sh.violation('on', 'on:flag-not-propagated', f'db.allow_properties={on.allow_properties!r}', case)
    exp_on = dict(exp, allow_properties=True)
    got = walk.content(on)
    sh.count('obs.properties_parsed', count_props(got))
    for p, a, b in am.diff_items(exp_on, got):
        tag = 'properties' if 'properties' in p else 'other'
        sh.violation('on', f'on:content:{tag}:{p.split(".")[-1].split("[")[0]}', f'{p}: expected {a!r}, got {b!r}', case)
    # round trip with the option on
    try:
        d1 = on.dbml
        back, e2 = parse(d1, allow_properties=True)
        if e2 is not None:
            sh.violation('on', f'on:dbml-does-not-reparse:{type(e2).__name__}', f'{e2}', dict(case, dbml=d1))
        else:
            g2 = walk.content(back)
            for t1, t2 in zip(got['tables'], g2['tables']):
                if t1['properties'] != t2['properties'] or [c['properties'] for c in t1['columns']] != [c['properties'] for c in t2['columns']]:
                    sh.violation('on', 'on:properties-lost-in-roundtrip', f'{t1["name"]}: {t1["properties"]} -> {t2["properties"]}', dict(case, dbml=d1))
    except Exception as e:  # noqa
        sh.violation('on', f'on:dbml-raises:{type(e).__name__}', str(e), case)
        return
    # editing the properties of one property-less object in place must not show up anywhere else
    bare = [c for t in on.tables for c in t.columns if not c.properties] + [t for t in on.tables if not t.properties]
    if len(bare) >= 2:
        bare[0].properties['injected_key'] = 'injected value'
        leaked = [type(x).__name__ for x in bare[1:] if x.properties]
        again, _e = parse(text, allow_properties=True)
        if again is not None:
            leaked += ['later parse:' + type(x).__name__ for t in again.tables for x in [t] + list(t.columns)
                       if 'injected_key' in x.properties]
        sh.count('obs.inplace_property_edits')
        if leaked:
            sh.violation('on', 'on:properties-dict-shared-between-objects', f'editing one object\'s properties in place changed {leaked[:4]}', case)
        del bare[0].properties['injected_key']
    # flag flips on the live database
    try:
        on.allow_properties = False
        d_off = on.dbml
        on.allow_properties = True
        d_on2 = on.dbml
        if d_on2 != d1:
            sh.violation('flip', 'flip:not-restored', 'flag off then on again: dbml differs from the first rendering', case)
        if withp:
            vals = [v for t in doc.tables for k, v in t.props] + [v for t in doc.tables for c in t.columns for k, v in c.props]
            keys = [k for t in doc.tables for k, v in t.props] + [k for t in doc.tables for c in t.columns for k, v in c.props]
            leaked = [k for k in keys if k in d_off]
            missing = [k for k in keys if k not in d1]
            if leaked:
                sh.violation('flip', 'flip:properties-rendered-while-off', f'keys {leaked[:3]} appear with the flag off', case)
            if missing:
                sh.violation('flip', 'flip:properties-missing-while-on', f'keys {missing[:3]} absent with the flag on', case)
            sh.count('obs.flag_flips')
        elif d_off != d1:
            sh.violation('flip', 'flip:changes-property-free-rendering', 'flag changes the rendering of a property-free database', case)
    except Exception as e:  # noqa
        sh.violation('flip', f'flip:raises:{type(e).__name__}', str(e), case)
    # ---------------- a table that moves to another database follows the flag of its new owner
    if withp and on.tables:
        try:
            from pydbml import Database
            t0 = on.tables[0]
            keys0 = list(t0.properties) + [k_ for c_ in t0.columns for k_ in c_.properties]
            if keys0 and all(t0 is not r_.table1 and t0 is not r_.table2 for r_ in on.refs):
                on.delete(t0)
                other = Database(allow_properties=False)
                other.add(t0)
                d_moved = other.dbml
                sh.count('obs.moved_tables')
                if any(k_ in d_moved for k_ in keys0):
                    sh.violation('flip', 'moved:properties-rendered-in-a-database-with-the-flag-off',
                                 f'table moved from a database with the flag on to one with the flag off still renders {[k_ for k_ in keys0 if k_ in d_moved][:3]}', case)
                other.allow_properties = True
                d_moved = other.dbml
                if not all(k_ in d_moved for k_ in keys0):
                    sh.violation('flip', 'moved:properties-missing-after-enabling-the-new-owner', 'keys absent after the new owner enabled the flag', case)
                third = Database(allow_properties=False)
                other.delete(t0)
                third.add(t0)
                if any(k_ in third.dbml for k_ in keys0):
                    sh.violation('flip', 'moved:properties-rendered-in-a-database-with-the-flag-off', 'second move: keys rendered although the owner has the flag off', case)
        except Exception as e:  # noqa
            sh.violation('flip', f'moved:raises:{type(e).__name__}', str(e), case)
    # ---------------- option off
    if withp:
        if err_off is None:
            sh.violation('off', 'off:property-syntax-accepted', 'document with properties accepted with the option off', case)
        elif not monitors.is_parse_error(err_off):
            sh.violation('off', f'off:not-a-syntax-error:{type(err_off).__name__}', str(err_off), case)
        else:
            sh.count('obs.off_rejected')
        # API-built database carrying properties with the flag off renders none
        doc_off = doc
        dba = apibuild.build(doc_off)
        dba.allow_properties = False
        try:
            d = dba.dbml
            keys = [k for t in doc.tables for k, v in t.props] + [k for t in doc.tables for c in t.columns for k, v in c.props]
            if any(k in d for k in keys):
                sh.violation('off', 'off:api-properties-rendered', 'flag off but properties in dbml', case)
            dba.allow_properties = True
            d = dba.dbml
            if not all(k in d for k in keys):
                sh.violation('off', 'off:api-properties-missing-after-enable', 'flag on but properties missing', case)
        except Exception as e:  # noqa
            sh.violation('off', f'off:api-render-raises:{type(e).__name__}', str(e), case)
    else:
        # differential: the option changes nothing for a property-free document
        if err_off is not None:
            sh.violation('diff', f'diff:off-rejected:{type(err_off).__name__}', f'{err_off}', case)
            return
        c_off = walk.content(off)
        c_on = dict(got, allow_properties=False)
        d = am.diff(c_off, c_on)
        if d:
            sh.violation('diff', 'diff:content:' + d[0].split(':')[0].split('.')[-1], '; '.join(d[:3]), case)
        if off.sql != on.sql:
            sh.violation('diff', 'diff:sql', 'sql differs between option on and off', case)
        if off.dbml != d1:
            sh.violation('diff', 'diff:dbml', 'dbml differs between option on and off', case)
        sh.count('obs.on_off_differentials')


def prop_product(rng):
    """0..3 table properties x 0..3 column properties on a column with 0..2 ordinary settings"""
    nm = gen.Namer(rng, ('bare', 'bare', 'upper', 'space', 'unicode', 'dash'))
    tx = gen.Texts(rng, 'plain')
    docs = []
    for nt in range(4):
        for nc in range(4):
            for ordinary in range(3):
                doc = am.Doc(allow_properties=True)
                t = am.Table(rng.choice(['public', nm('s')]), nm('t'))
                kwv = ['true', 'false', 'null', 'NULL', 'True', '42', '4.5', '0', '', ' ', 'pk', 'not null', "note: 'x'",
                       'x' * 101, 'a fairly long value, ' * 6, 'y' * 300, 'w ' * 60]
                t.props = [(nm('pk'), tx.line('pv') if rng.random() > 0.25 else rng.choice(kwv)) for _ in range(nt)]
                t.note = tx.note('tn') if rng.random() < 0.5 else None
                c = am.Column(nm('c'), am.ColType('plain', 'int'))
                c.props = [(nm('ck'), tx.line('cv') if rng.random() > 0.25 else rng.choice(kwv)) for _ in range(nc)]
                if ordinary >= 1:
                    c.pk = True
                if ordinary >= 2:
                    c.default = gen.rand_default(rng, tx)
                    c.note = tx.note('cn', 0)
                t.columns.append(c)
                c2 = am.Column(nm('c'), am.ColType('plain', 'text'))
                c2.props = [(nm('ck'), tx.line('cv'))] if nc % 2 else []
                t.columns.append(c2)
                if rng.random() < 0.5:
                    t.indexes.append(am.Index([('col', c.name)]))
                doc.tables.append(t)
                doc.default_order()
                docs.append(doc)
    return docs


def plan(tier, seed):
    return [{'shard': i, 'of': 16} for i in range(16)]


def run_shard(spec, tier, seed, budget_s):
    sh = Shard(ID, budget_s)
    i, n = spec['shard'], spec['of']
    prng = random.Random(f'{seed}-c15-product')
    nst = {'quick': 4, 'thorough': 16}[tier]
    for j, doc in enumerate(prop_product(prng)):
        if j % n != i:
            continue
        for s in range(nst):
            check(sh, doc, f'{seed}-{j}-{s}', 'product')
        # properties that share their physical line with the next / previous element of the table body (same oracle and
        # the same calibrated list of admitted joins as C01's same-line layouts)
        from pv.props import c01 as _c01
        _c01.joined_layouts(sh, doc, f'{seed}-{j}-joined')
    rng = random.Random(f'{seed}-c15-{i}')
    k = 0
    target = {'quick': 200, 'thorough': 3000}[tier]
    while k < target and not sh.out_of_time():
        k += 1
        props = rng.random() < 0.5
        doc = gen.random_doc(rng, rng.choice(['tiny', 'small', 'small', 'medium']), 'plain', props=props, ml_small_notes=False)
        # property values are rich single-line texts (quotes, backslashes, braces ...); everything else stays plain,
        # free text at the other sites is C13's business
        rich = gen.Texts(rng, 'rich')
        kwkeys = rng.random() < 0.3       # keys that merely start with a settings keyword are ordinary keys
        n_ = [0]

        def key(k_):
            n_[0] += 1
            return rng.choice(['nullable', 'unique_key', 'pkey', 'not_null_flag', 'incrementor', 'primary_key_id', 'note_x', 'defaults',
                               'refs', 'types', 'name_x', 'indexes_x', 'PKEY', 'Uniq']) + str(n_[0]) if kwkeys else k_
        for t in doc.tables:
            t.props = [(key(k_), rich.line('pv').replace("'''", "''")) for k_, v_ in t.props]
            for c in t.columns:
                c.props = [(key(k_), rich.line('cv').replace("'''", "''")) for k_, v_ in c.props]
        check(sh, doc, f'{seed}-{i}-{k}', 'random')
    return sh


def conclusive(agg, tier):
    c = agg['counters']
    return [f'{k} is zero' for k in ('obs.docs.product.props', 'obs.docs.random.props', 'obs.docs.random.noprops', 'obs.properties_parsed',
                                     'obs.off_rejected', 'obs.flag_flips', 'obs.on_off_differentials', 'obs.option_through_file_routes') if not c.get(k)]


def replay(v):
    sh = Shard(ID)
    case = v['case']
    text = case['text']
    on, e1 = parse(text, allow_properties=True)
    off, e2 = parse(text)
    k = v['klass']
    if k.startswith('on:rejected') and e1 is not None:
        sh.violation('on', k, f'still rejected: {e1}', case)
    elif k.startswith('off:property-syntax-accepted') and e2 is None:
        sh.violation('off', k, 'still accepted', case)
    elif e1 is None and k.startswith('diff:') and e2 is None and (off.sql != on.sql or off.dbml != on.dbml):
        sh.violation('diff', k, 'renderings still differ', case)
    elif e1 is None and k.startswith('flip:'):
        d1 = on.dbml
        on.allow_properties = False
        d0 = on.dbml
        on.allow_properties = True
        if on.dbml != d1 or (k.endswith('while-off') and d0 == d1):
            sh.violation('flip', k, 'flag flip still misbehaves', case)
    elif k.startswith('on:content') or k.startswith('on:'):
        sh.notes.append('content witnesses need the abstract document; re-run with the same seed')
        return [dict(v)]
    return sh.violations
