"""C14 — Comments are captured on the element they belong to and are otherwise inert."""
import copy
import os
import random

from pv import am, gen, surface, walk, monitors, sqlread
from pv.common import parse
from pv.result import Shard

ID = 'C14'
MANIFEST = {
    'text': ('(inert) a generated document and the same document with one comment planted at an enumerated placement - own line in '
             'every kind of body and multi-line settings list, end of every line incl. the lines holding { } [ ], and the mid-line '
             'gaps the grammar admits - must both be accepted and give the same database apart from comment attributes; // and '
             '/* */ forms, single and multi-line, hostile contents (quotes, braces, DBML and SQL syntax). (capture) templates with '
             'comments above and/or trailing every element kind: the stored comment must be the trailing one if present, else the '
             'above block joined by newlines. (emit) db.dbml must re-parse to the same comments; every comment line must carry // '
             'resp. --; db.sql read by the independent tokenizer must have the same statements with and without the comments.'),
    'note': 'normative placements: own-line and end-of-line (DBML allows a comment to end any line); mid-line /* */ gaps are an empirical list calibrated on the current tree (others are reported as not admitted, not as violations)',
    'technique': 'runtime monitoring: metamorphic comment injection at enumerated writer slots + capture oracle + offline checker over emitted DBML/SQL',
}
LEVEL = 'exploration'
BUDGET = {'quick': 90, 'thorough': 400}
RULE = ('(host document, slot, comment form) for inertness; (element kind, above?, trailing?, form, content) for capture; '
        '(document) for emission; distinct by text hash; non-trivial = the comment was planted inside or next to an element')
ASSUMPTIONS = ['the host without the planted comment parses (control)', 'CPython/pyparsing trusted']

KNOBS = {'block_comments': True}
# mid-line gaps where a /* */ comment is admitted by the grammar of the unchanged tree (calibrated; see DESIGN C14)
ADMITTED_GAPS = {'gap:col:before-settings', 'gap:table:before-brace', 'gap:enum:before-brace',
                 'gap:group:before-brace', 'gap:project:before-brace', 'gap:sticky:before-brace', 'gap:ref:before-brace',
                 'gap:index:before-settings', 'gap:enumitem:before-settings', 'gap:ref:before-settings',
                 'gap:settings:column', 'gap:settings:table', 'gap:settings:index', 'gap:settings:ref', 'gap:settings:group',
                 'gap:group:before-settings',
                 # after the colon of a setting (calibrated the same way: 0 of 1738 rejected on the current tree)
                 'gap:colon:note', 'gap:colon:default', 'gap:colon:ixname', 'gap:colon:ixtype', 'gap:colon:headercolor', 'gap:colon:color',
                 'gap:colon:update', 'gap:colon:delete'}
HOSTILE = ["it's", 'say "hi"', '{x} {0} {}', 'Table fake { id int }', 'CREATE TABLE fake (id int);', '; DROP', "'''", '`tick`',
           '[note: \'x\']', '}', '{', ']', 'Ref: a.b > c.d', '-- dashes', '// slashes', 'é 名 😀', '%s %d', 'back\\slash',
           'exported to C:\\dumps\\', 'ends with a backslash \\', '\\', 'line continues \\ ', '// // twice', '-- -- twice', '/', '*', '/*', '#', '////',
           'pk', 'unique', 'not null', 'increment', 'null', 'primary key', "note: 'x'", 'ref: > t.id', 'default: 1', 'cascade', 'no action', '[pk]', 'as x',
           'generated from migrations/*.sql', 'was: x /* old', '/* /*', 'indexes {', 'Note: \'n\'', 'headercolor: #fff', 'name: \'n\'', 'type: hash']


def comment_payloads(rng, kind, n):
    tag = f'noise{n}'
    h = rng.choice(HOSTILE)
    out = []
    if kind.startswith('own:'):
        out.append(('own-line', f'// {tag} {h}'))
        out.append(('own-block', f'/* {tag} {h.replace("*/", "")} */'))
        out.append(('own-multi', f'// {tag} 1\n// {tag} 2 {h}'))
        out.append(('own-block-multi', f'/* {tag}\n {h.replace("*/", "")}\n*/'))
        out.append(('own-block-stars', rng.choice([f'/** {tag} **/', '/***/', f'/* {tag} ***/', f'/*** {tag} * / * **/', '/**/'])))
    elif kind.startswith('eol:'):
        # a comment whose WHOLE text is spelled like a setting or a keyword
        kwt = rng.choice(['pk', 'unique', 'not null', 'null', 'increment', 'primary key', "note: 'x'", 'default: 1', 'ref: > t.id', 'cascade', 'as x', '[pk]', 'unique, pk'])
        out.append(('eol-line-keyword-text', rng.choice([f'// {kwt}', f'//{kwt}', f'/* {kwt} */', f'/*{kwt}*/'])))
        out.append(('eol-line', f'// {tag} {h}'))
        out.append(('eol-block', f'/* {tag} {h.replace("*/", "")} */'))
        out.append(('eol-block-stars', rng.choice([f'/** {tag} **/', '/***/', f'/* {tag} ***/'])))
    elif kind.startswith('gap:'):
        out.append(('gap-block', f'/* {tag} */'))
    return out


def inert(sh, doc, sseed, rng, per_host, props):
    text, slots = surface.render_with_slots(doc, sseed, KNOBS)
    host, err = parse(text, allow_properties=props)
    if err is not None:
        sh.count('obs.host_rejected')
        return
    sh.count('obs.hosts')
    base = am.strip_comments(walk.content(host))
    cases = []
    for n, kind in enumerate(slots):
        if kind.startswith('fault:'):
            continue
        if kind.startswith('gap:') and kind not in ADMITTED_GAPS and not os.environ.get('PV_C14_ALLGAPS'):
            sh.count('obs.gap_not_admitted.' + kind)
            continue
        for form, payload in comment_payloads(rng, kind, n):
            cases.append((n, kind, form, payload))
    if len(cases) > per_host:
        rng.shuffle(cases)
        seen, pick, rest = set(), [], []
        for c in cases:
            key = (c[1], c[2])
            if key not in seen:
                seen.add(key)
                pick.append(c)
            else:
                rest.append(c)
        cases = (pick + rest)[:max(per_host, len(pick))]
    for n, kind, form, payload in cases:
        if sh.out_of_time():
            break
        t2 = surface.render(doc, sseed, KNOBS, inject={n: payload})
        sh.case(t2, nontrivial=not kind.endswith(':end'), sample={'placement': kind, 'form': form, 'comment': payload, 'text': t2[:700]})
        sh.count('obs.inert.' + kind.split(':')[0] + '.' + form)
        db, err = parse(t2, allow_properties=props)
        case = {'kind': 'inert', 'text': t2, 'host': text, 'props': props}
        feats = {'placement': kind, 'form': form}
        if err is not None:
            cls, where = monitors.classify_exc(err)
            sh.violation('inert', f'inert:rejected@{kind}:{form}', f'{form} at {kind}: {cls}: {err}', case, feats)
            continue
        got = am.strip_comments(walk.content(db))
        d = am.diff(base, got)
        if d:
            sh.violation('inert', f'inert:model-changed@{kind}:{form}', f'{form} at {kind}: ' + '; '.join(d[:3]), case, feats)
        else:
            sh.count('obs.inert_ok')


# --------------------------------------------------------------------------- capture templates
def capture_cases(rng):
    """-> list of (label, text, getter(db) -> stored comment, expected)"""
    out = []
    n = [0]

    def txt(multi=False):
        n[0] += 1
        h = rng.choice(HOSTILE).replace('*/', '')
        lines = [f'cm{n[0]} {h}'] + ([f'cm{n[0]}b second {rng.choice(HOSTILE).replace("*/", "")}'] if multi else [])
        return lines

    def above(lines, form, ind=''):
        if form == 'block' and len(lines) == 1:
            return f'{ind}/* {lines[0]}*/\n'
        return ''.join(f'{ind}// {ln}\n' for ln in lines)

    def trail(lines, form):
        if not lines:
            return ''
        return f' /* {lines[0]}*/' if form == 'block' else f' // {lines[0]}'
    for form in ('line', 'block'):
        for multi in (False, True):
            for blank_between in (False, True):
                gap = '\n' if blank_between else ''
                a = txt(multi)
                exp = '\n'.join(a)
                # top-level elements: above only
                out.append((f'table|above|{form}', above(a, form) + gap + 'Table t {\n  id int\n}\n', lambda d: d.tables[0].comment, exp))
                if form == 'line':
                    # identical lines repeated inside one block (a boxed heading) are all kept, in order
                    box = ['-----', a[0], '-----', '', '']
                    out.append((f'table|above-repeated-lines|{form}', above(box, form) + 'Table t {\n  id int\n}\n', lambda d: d.tables[0].comment, '\n'.join(box)))
                    out.append((f'enum|above-repeated-lines|{form}', above(box, form) + 'Enum e {\n  x\n}\n', lambda d: d.enums[0].comment, '\n'.join(box)))
                    out.append((f'ref-short|above-repeated-lines|{form}', 'Table t {\n id int\n x int\n}\n' + above(box, form) + 'Ref: t.id > t.x\n',
                                lambda d: d.refs[0].comment, '\n'.join(box)))
                out.append((f'enum|above|{form}', above(a, form) + gap + 'Enum e {\n  x\n}\n', lambda d: d.enums[0].comment, exp))
                out.append((f'project|above|{form}', above(a, form) + gap + "Project p {\n  k: 'v'\n}\n", lambda d: d.project.comment, exp))
                out.append((f'group|above|{form}', 'Table t {\n id int\n}\n' + above(a, form) + gap + 'TableGroup g {\n  t\n}\n',
                            lambda d: d.table_groups[0].comment, exp))
                out.append((f'ref-short|above|{form}', 'Table t {\n id int\n x int\n}\n' + above(a, form) + gap + 'Ref: t.id > t.x\n',
                            lambda d: d.refs[0].comment, exp))
                out.append((f'ref-block|above|{form}', 'Table t {\n id int\n x int\n}\n' + above(a, form) + gap + 'Ref nm {\n  t.id > t.x\n}\n',
                            lambda d: d.refs[0].comment, exp))
            # elements with above and/or trailing
            for has_above in (False, True):
                for has_trail in (False, True):
                    if not has_above and not has_trail:
                        continue
                    a = txt(multi) if has_above else []
                    t = txt(False) if has_trail else []
                    exp = t[0] if has_trail else '\n'.join(a)
                    ab = above(a, form, '  ')
                    tr = trail(t, form)
                    lab = f'{"above" if has_above else ""}{"+" if has_above and has_trail else ""}{"trailing" if has_trail else ""}|{form}'
                    for settings in ('', ' [pk]', " [note: 'n', pk]"):
                        out.append((f'column|{lab}', f'Table t {{\n  first int\n{ab}  id int{settings}{tr}\n  last int\n}}\n',
                                    lambda d: d.tables[0].columns[1].comment, exp))
                    for before in ("  Note: 'tn'\n", "  Note {\n    'tn'\n  }\n", "  indexes {\n    first\n  }\n"):
                        out.append((f'column-after-note|{lab}', f'Table t {{\n  first int\n{before}{ab}  id int [pk]{tr}\n  last int\n}}\n',
                                    lambda d: d.tables[0].columns[1].comment, exp))
                    for settings in ('', " [note: 'n']"):
                        out.append((f'enumitem|{lab}', f'Enum e {{\n  first\n{ab}  it{settings}{tr}\n  last\n}}\n',
                                    lambda d: d.enums[0].items[1].comment, exp))
                    for settings in ('', ' [unique]', " [name: 'n', type: hash]"):
                        for subj in ('id', '(id, x)', '`id*2`'):
                            out.append((f'index|{lab}', f'Table t {{\n  id int\n  x int\n  indexes {{\n    x\n{ab.replace("  ", "    ", 1)}    {subj}{settings}{tr}\n  }}\n}}\n',
                                        lambda d: d.tables[0].indexes[1].comment, exp))
                    for settings in ('', ' [delete: cascade]', ' [update: no action, delete: set null]'):
                        out.append((f'ref-short|{lab}', f'Table t {{\n id int\n x int\n}}\n{ab}Ref: t.id > t.x{settings}{tr}\n',
                                    lambda d: d.refs[0].comment, exp))
                        out.append((f'ref-block|{lab}', f'Table t {{\n id int\n x int\n}}\n{ab}Ref {{\n  t.id > t.x{settings}{tr}\n}}\n',
                                    lambda d: d.refs[0].comment, exp))
    # ---- a trailing comment whose whole text is a setting word is a comment and nothing else
    for kwt in ('pk', 'unique', 'not null', 'increment', 'primary key', 'null'):
        for form in ('line', 'block'):
            tr_ = f' // {kwt}' if form == 'line' else f' /* {kwt}*/'
            out.append((f'column|trailing-keyword-text|{form}', f'Table t {{\n  first int\n  id int{tr_}\n  last int\n}}\n', lambda d: d.tables[0].columns[1].comment, kwt))
            out.append((f'column|trailing-keyword-text|{form}', f'Table t {{\n  first int\n  id int [not null]{tr_}\n  last int\n}}\n', lambda d: d.tables[0].columns[1].comment, kwt))
            out.append((f'index|trailing-keyword-text|{form}', f'Table t {{\n  id int\n  x int\n  indexes {{\n    x\n    id{tr_}\n  }}\n}}\n', lambda d: d.tables[0].indexes[1].comment, kwt))
            out.append((f'enumitem|trailing-keyword-text|{form}', f'Enum e {{\n  first\n  it{tr_}\n  last\n}}\n', lambda d: d.enums[0].items[1].comment, kwt))
    # ---- an EMPTY trailing comment is still the trailing comment: it wins over the block above
    for empty in ('//', '// ', '/**/', '/* */'):
        a = txt(False)
        ab = above(a, 'line', '  ')
        out.append((f'column|above+empty-trailing|{empty}', f'Table t {{\n  first int\n{ab}  id int [pk] {empty}\n  last int\n}}\n',
                    lambda d: d.tables[0].columns[1].comment, ''))
        out.append((f'enumitem|above+empty-trailing|{empty}', f'Enum e {{\n  first\n{ab}  it {empty}\n  last\n}}\n',
                    lambda d: d.enums[0].items[1].comment, ''))
        out.append((f'index|above+empty-trailing|{empty}', f'Table t {{\n  id int\n  x int\n  indexes {{\n    x\n  {ab}    id [unique] {empty}\n  }}\n}}\n',
                    lambda d: d.tables[0].indexes[1].comment, ''))
        out.append((f'ref-short|above+empty-trailing|{empty}', f'Table t {{\n id int\n x int\n}}\n{above(a, "line")}Ref: t.id > t.x {empty}\n',
                    lambda d: d.refs[0].comment, ''))
    # ---- two comments after one index on its line (the only element whose line takes two): the last one is stored and
    # nothing leaks to the neighbouring indexes
    for n_ in range(3):
        a1, a2 = txt(False), txt(False)
        two = f' /* {a1[0]}*/ // {a2[0]}'
        out.append((f'index|two-trailing|mixed', f'Table t {{\n  id int\n  x int\n  indexes {{\n    x\n    (id, x) [unique]{two}\n    id\n  }}\n}}\n',
                    lambda d: d.tables[0].indexes[1].comment, a2[0]))
    # ---- a comment after the closing brace of a block belongs to nothing; the element that follows keeps exactly the block
    # written directly above it (or no comment at all)
    firsts = {'table': 'Table f {\n  id int\n}', 'enum': 'Enum fe {\n  x\n}', 'ref-block': 'Ref fr {\n  t.id > t.x\n}',
              'group': 'TableGroup fg {\n  t\n}', 'project': "Project fp {\n  k: 'v'\n}", 'sticky': "Note fn {\n  'x'\n}"}
    seconds = {'table': ('Table s {\n  id int\n}', lambda d: d.tables[-1].comment), 'enum': ('Enum se {\n  x\n}', lambda d: d.enums[-1].comment),
               'ref-short': ('Ref: t.x > t.id', lambda d: d.refs[-1].comment), 'ref-block': ('Ref sr {\n  t.x > t.id\n}', lambda d: d.refs[-1].comment),
               'group': ('TableGroup sg {\n  t\n}', lambda d: d.table_groups[-1].comment)}
    for k1, e1 in firsts.items():
        for k2, (e2, get2) in seconds.items():
            for own in (False, True):
                for form in ('line', 'block'):
                    a = txt(False) if own else []
                    tb = txt(False)
                    text = 'Table t {\n id int\n x int\n}\n' + e1 + trail(tb, form) + '\n' + (above(a, 'line') if own else '') + e2 + '\n'
                    out.append((f'after-closing-brace:{k1}|then-{k2}|{"own" if own else "none"}|{form}', text, get2, a[0] if own else None))
    return out


def capture(sh, rng):
    for label, text, getter, exp in capture_cases(rng):
        sh.case(text, nontrivial=True, sample={'check': 'capture', 'label': label, 'text': text, 'expect': exp})
        sh.count('obs.capture.' + label.split('|')[0])
        db, err = parse(text)
        case = {'kind': 'capture', 'text': text, 'expect': exp, 'label': label}
        if err is not None:
            sh.violation('capture', f'capture:rejected:{label}', f'{type(err).__name__}: {err}', case)
            continue
        try:
            got = getter(db)
        except Exception as e:  # noqa
            sh.violation('capture', f'capture:element-missing:{label}', f'{type(e).__name__}: {e}', case)
            continue
        if got != exp:
            sh.violation('capture', f'capture:wrong-comment:{label}', f'stored {got!r}, expected {exp!r}', case)
        else:
            sh.count('obs.capture_ok')
        # the TEXT of the comment means nothing: the same template with a neutral text gives the same model otherwise
        if exp and '\n' not in exp and text.count(exp) == 1:
            dbn, errn = parse(text.replace(exp, 'neutral words'))
            if errn is None:
                dn = am.diff(am.strip_comments(walk.content(dbn)), am.strip_comments(walk.content(db)))
                sh.count('obs.capture_text_neutrality')
                if dn:
                    sh.violation('inert', f'inert:comment-text-changes-the-model:{label.split("|")[0]}', f'comment text {exp!r}: ' + '; '.join(dn[:3]), case)
        # no other element of the template may have picked a comment up (templates carry exactly one commented element)
        others = [c for c in all_comments(db) if c != got]
        if others:
            sh.violation('capture', f'capture:comment-on-uncommented-element:{label.split("|")[0]}', f'unexpected comments {others[:3]}', case)
        emit_checks(sh, db, text, label)


# --------------------------------------------------------------------------- emission
def all_comments(db):
    out = []
    for t in db.tables:
        out.append(t.comment)
        out += [c.comment for c in t.columns] + [i.comment for i in t.indexes]
    for e in db.enums:
        out.append(e.comment)
        out += [i.comment for i in e.items]
    out += [r.comment for r in db.refs] + [g.comment for g in db.table_groups]
    if db.project is not None:
        out.append(db.project.comment)
    return [c for c in out if c]


def clear_comments(db):
    for t in db.tables:
        t.comment = None
        for c in t.columns:
            c.comment = None
        for i in t.indexes:
            i.comment = None
    for e in db.enums:
        e.comment = None
        for i in e.items:
            i.comment = None
    for r in db.refs:
        r.comment = None
    for g in db.table_groups:
        g.comment = None
    if db.project is not None:
        db.project.comment = None


def stmts(sql):
    rd = sqlread.read(sql)
    out = []
    for s in rd['statements']:
        s = dict(s)
        s.pop('order', None)
        out.append(s)
    return out, rd['comments']


def emit_checks(sh, db, text, label, props=False):
    case = {'kind': 'emit', 'text': text, 'props': props}
    cms = all_comments(db)
    if not cms:
        return
    sh.count('obs.emit_docs')
    try:
        dbml = db.dbml
        sql = db.sql
    except Exception as e:  # noqa
        cls, where = monitors.classify_exc(e)
        sh.violation('emit', f'emit:render-raises:{cls}@{where}', str(e), case)
        return
    # (1) DBML re-parses to the same comments (and the same everything else)
    back, err = parse(dbml, allow_properties=props)
    if err is not None:
        sh.violation('emit', f'emit:dbml-does-not-reparse:{type(err).__name__}', f'{err}', dict(case, dbml=dbml))
    else:
        from pv.props.c02 import split_refs      # inline and non-inline references are two ordered sequences
        a, b = split_refs(walk.content(db)), split_refs(walk.content(back))
        for p, x, y in am.diff_items(a, b):
            if p.endswith('.comment'):
                kind = p.split('.')[-2].split('[')[0]
                sh.violation('emit', f'emit:comment-lost-in-dbml-roundtrip:{kind}', f'{p}: {x!r} -> {y!r}', dict(case, dbml=dbml))
        sh.count('obs.emit_roundtrips')
    # (2) every comment line carries the prefix
    dl = [ln.strip() for ln in dbml.split('\n')]
    sl = [ln.strip() for ln in sql.split('\n')]
    for cm in cms:
        for ln in cm.split('\n'):
            sh.count('obs.comment_lines_checked')
            if f'// {ln}'.strip() not in dl:
                sh.violation('emit', 'emit:dbml-comment-line-without-prefix', f'comment line {ln!r} not emitted as its own // line', dict(case, dbml=dbml))
    sql_emitters = []      # (kind, comment) of every element whose SQL renderer emits the comment with it
    for t in db.tables:
        sql_emitters += [('table', t.comment)] + [('column', c.comment) for c in t.columns] + [('index', i.comment) for i in t.indexes]
    for e in db.enums:
        sql_emitters += [('enum', e.comment)] + [('enumitem', i.comment) for i in e.items]
    sql_emitters += [('ref' + ('-m2m' if r.type == '<>' else ''), r.comment) for r in db.refs]
    for kind_, cm in sql_emitters:
        for ln in (cm or '').split('\n') if cm else []:
            if f'-- {ln}'.strip() not in sl:
                sh.violation('emit', f'emit:sql-comment-line-without-prefix:{kind_}', f'comment line {ln!r} of a {kind_} not emitted as its own -- line', dict(case, sql=sql))
    # (3) comment text never becomes part of a statement: same statements with and without comments
    try:
        with_c, found = stmts(sql)
        clear_comments(db)
        without_c, found2 = stmts(db.sql)
        if with_c != without_c:
            k = next((i for i, (x, y) in enumerate(zip(with_c, without_c)) if x != y), min(len(with_c), len(without_c)))
            sh.violation('emit', 'emit:sql-statements-change-with-comments', f'statement #{k} differs: {str(with_c[k:k+1])[:200]} vs {str(without_c[k:k+1])[:200]}', dict(case, sql=sql))
        if found2:
            sh.violation('emit', 'emit:sql-comment-after-clearing', f'{found2[:2]}', case)
        sh.count('obs.sql_statement_comparisons')
    except Exception as e:  # noqa
        cls, where = monitors.classify_exc(e)
        sh.violation('emit', f'emit:sql-raises:{cls}@{where}', str(e), case)


def plan(tier, seed):
    return [{'shard': i, 'of': 16} for i in range(16)]


def run_shard(spec, tier, seed, budget_s):
    sh = Shard(ID, budget_s)
    i = spec['shard']
    rng = random.Random(f'{seed}-c14-{i}')
    if i < 4:
        capture(sh, random.Random(f'{seed}-capture-{i}'))
    hosts = {'quick': 6, 'thorough': 150}[tier]
    per_host = {'quick': 60, 'thorough': 10**9}[tier]
    k = 0
    while k < hosts and not sh.out_of_time():
        k += 1
        props = rng.random() < 0.3
        doc = gen.random_doc(rng, rng.choice(['small', 'small', 'medium']), 'plain', props=props)
        inert(sh, doc, f'{seed}-{i}-{k}', rng, per_host, props)
    # emission on documents with hostile multi-line comments on every element kind
    k = 0
    target = {'quick': 40, 'thorough': 1200}[tier]
    while k < target and not sh.out_of_time():
        k += 1
        doc = gen.random_doc(rng, 'small', 'plain', props=False)
        cm = gen.Texts(rng, 'rich')
        for t in doc.tables:
            t.comment = cm.comment() if rng.random() < 0.7 else None
            for c in t.columns:
                c.comment = cm.comment() if rng.random() < 0.5 else None
            for ix in t.indexes:
                ix.comment = cm.comment() if rng.random() < 0.5 else None
        for e in doc.enums:
            e.comment = cm.comment() if rng.random() < 0.7 else None
            for it in e.items:
                it.comment = cm.comment() if rng.random() < 0.5 else None
        for r in doc.refs:
            r.comment = cm.comment() if rng.random() < 0.7 else None
        text = surface.render(doc, f'{seed}-{i}-e{k}', {'block_comments': False})
        db, err = parse(text)
        sh.case(text, nontrivial=True, sample={'check': 'emit', 'text': text[:600]})
        if err is not None:
            sh.count('obs.source_rejected')
            continue
        emit_checks(sh, db, text, 'random')
    return sh


def conclusive(agg, tier):
    c = agg['counters']
    need = ['obs.inert.own.own-line', 'obs.inert.own.own-block', 'obs.inert.own.own-multi', 'obs.inert.eol.eol-line', 'obs.inert.eol.eol-block',
            'obs.inert.gap.gap-block', 'obs.capture.table', 'obs.capture.column', 'obs.capture.enumitem', 'obs.capture.index',
            'obs.capture.ref-short', 'obs.capture.ref-block', 'obs.capture.project', 'obs.capture.group', 'obs.capture.enum',
            'obs.emit_roundtrips', 'obs.comment_lines_checked', 'obs.sql_statement_comparisons', 'obs.inert_ok', 'obs.capture_ok']
    return [f'{k} is zero' for k in need if not c.get(k)]


def replay(v):
    sh = Shard(ID)
    case = v['case']
    if case['kind'] == 'inert':
        host, e0 = parse(case['host'], allow_properties=case.get('props', False))
        db, err = parse(case['text'], allow_properties=case.get('props', False))
        if e0 is None and err is not None:
            sh.violation('inert', v['klass'], f'still rejected: {err}', case, v.get('features'))
        elif e0 is None and am.strip_comments(walk.content(db)) != am.strip_comments(walk.content(host)):
            sh.violation('inert', v['klass'], 'model still changes', case, v.get('features'))
    elif case['kind'] == 'capture':
        db, err = parse(case['text'])
        if err is not None:
            sh.violation('capture', v['klass'], f'rejected: {err}', case)
        elif case['expect'] not in all_comments(db):
            sh.violation('capture', v['klass'], f'expected comment not stored; stored: {all_comments(db)}', case)
    else:
        db, err = parse(case['text'], allow_properties=case.get('props', False))
        if err is None:
            emit_checks(sh, db, case['text'], 'replay')
    return sh.violations
