"""C08 — Parsing and rendering never fail with an internal error.

Escape classifier: an exception leaving PyDBML(text) must be a pyparsing parse
error, one of pydbml.exceptions, or the SyntaxError of the column-less-table
rule; after a successful parse nothing may raise from .dbml / .sql of the
database or of any element."""
import itertools
import random

from pv import am, gen, surface, monitors
from pv.common import parse, skeleton
from pv.result import Shard

ID = 'C08'
MANIFEST = {
    'text': ('Drives the real parser and both renderers with hostile input: structure-preserving substitution of hostile atoms '
             '(empty, blank, dotted, braces and format fields, %s, all quote kinds, backslash sequences, BOM, NUL, very long, '
             'non-ASCII, reserved words) into generated documents (acceptance ratio measured), exhaustive short strings over a '
             '12-symbol alphabet at every identifier / free-text position, token soup over the DBML alphabet, byte and token '
             'mutations of valid documents, bounded parenthesis nesting, and the trivial inputs; classifies every escaping '
             'exception by stage, class and raising frame. Non-termination is bounded by the shard watchdog (inconclusive).'),
    'note': 'allowed escapes from parsing: pyparsing.ParseBaseException, classes of pydbml.exceptions, SyntaxError raised by the table rule; nothing may escape from rendering a returned database; RecursionError only counts at nesting depth <= 20',
    'technique': 'runtime monitoring: hostile-workload fuzzing with an exception-escape classifier (stage x class x raising frame)',
}
LEVEL = 'exploration'
BUDGET = {'quick': 100, 'thorough': 420}
RULE = ('inputs from 6 streams (hostile substitution, exhaustive short strings per site, token soup, mutations, nesting, trivial); '
        'distinct by text hash; non-trivial = non-empty text; rendering is only exercised on accepted inputs, whose share is '
        'reported per stream')
ASSUMPTIONS = ['CPython/pyparsing trusted; a watchdog firing is reported as inconclusive, never as held']

HOSTILE_ATOMS = ['', ' ', '  ', '.', 'a.b', 'a.b.c', 'a.b.c.d', '..', '{x}', '{0}', '{c}', '{}', '{', '}', '%s', '%(x)s', '%',
                 "'", "''", "'''", '`', '\\', '\\n', '\\t', '\\"', "\\'", '\\\\', 'a\\', '﻿', '﻿x', '\x00', 'x' * 3000,
                 'é', '名前', '😀', 'table', 'note', 'ref', 'enum', 'null', 'true', ',', '(', ')', '(a,b)', '[', ']', '#', '//', '/*', '*/',
                 ':', ';', '<', '>', '-', '<>', 'a b', ' a', 'a ', '0', '-1', '1e5', '$x', '@', '!',
                 '\x0c', '\x0b', '\xa0', '\u2003', '\u3000', '\x85', '\u2028', ' \x0c ', '\xa0\xa0', '\r']
ALPHA12 = ['a', ' ', '.', '{', '}', "'", '"', '\\', '`', '\n', '%', ',']
WS_EXOTIC = ['\x0c', '\x0b', '\xa0', '\u2003', '\r', '\x85', '\u2028']
DBML_TOKENS = ['Table', 'Enum', 'Ref', 'Ref:', 'TableGroup', 'Project', 'Note', 'Note:', 'note:', 'indexes', 'as', '{', '}', '[', ']',
               '(', ')', ',', ':', '.', '>', '<', '-', '<>', 'pk', 'unique', 'not null', 'null', 'increment', 'default:', 'ref:',
               'headercolor:', '#fff', '#12345', 'type:', 'btree', 'name:', 'update:', 'delete:', 'cascade', "'s'", '"q"', "'''m\nl'''",
               '`e`', 'a', 'b', 't1', 'int', 'varchar(255)', '1', '1.5', '1.2.3', '1..2', '10.0.0.1', '.5', '5.', '1e5', '-1', '0x10', 'true', '\n', '\n', '\n', '// c', '/* c */', ' ', '  ']


def allowed_parse_error(e):
    if monitors.is_parse_error(e) or monitors.is_library_error(e):
        return True
    if type(e) is SyntaxError:
        # the column-less-table rule raises the built-in SyntaxError from a parse action of the library: the frame that
        # raised it must be library code itself (not ast / compile reached from the library)
        import os
        import traceback
        tb = traceback.extract_tb(e.__traceback__)
        return bool(tb) and os.path.realpath(tb[-1].filename).startswith(monitors.PKG)
    return False


def elements(db):
    for t in db.tables:
        yield 'table', t
        yield 'note', t.note
        for c in t.columns:
            yield 'column', c
            yield 'note', c.note
            if hasattr(c.default, 'sql') and not isinstance(c.default, (str, int, float, bool)):
                yield 'expression', c.default
        for ix in t.indexes:
            yield 'index', ix
            yield 'note', ix.note
    for e in db.enums:
        yield 'enum', e
        for it in e.items:
            yield 'enumitem', it
            yield 'note', it.note
    for r in db.refs:
        yield 'ref', r
    for g in db.table_groups:
        yield 'group', g
        if g.note is not None:
            yield 'note', g.note
    for s in db.sticky_notes:
        yield 'sticky', s
    if db.project is not None:
        yield 'project', db.project
        yield 'note', db.project.note


def run_input(sh, text, stream, props=False, feats=None, depth=None):
    feats = dict(feats or {}, stream=stream)
    sh.case(text, nontrivial=bool(text), sample={'stream': stream, 'text': text[:300]})
    sh.count('obs.inputs.' + stream)
    try:
        from pydbml import PyDBML
        db = PyDBML(text, allow_properties=props)
    except RecursionError as e:
        if depth is not None and depth > 20:
            sh.count('obs.recursion_beyond_bound')
            return None
        cls, where = monitors.classify_exc(e)
        sh.violation('parse', f'parse-escape:RecursionError@{where}', f'nesting depth {depth}', {'kind': 'text', 'text': text, 'props': props}, feats)
        return None
    except Exception as e:  # noqa
        if allowed_parse_error(e):
            sh.count('obs.rejected.' + stream)
            sh.count('obs.rejected_class.' + type(e).__name__)
            return None
        cls, where = monitors.classify_exc(e)
        sh.violation('parse', f'parse-escape:{cls}@{where}', f'{cls}: {str(e)[:200]}', {'kind': 'text', 'text': text, 'props': props}, feats)
        return None
    if not hasattr(db, 'tables'):
        sh.count('obs.factory_returned')
        return None
    sh.count('obs.accepted.' + stream)
    for what in ('dbml', 'sql'):
        try:
            getattr(db, what)
        except Exception as e:  # noqa
            cls, where = monitors.classify_exc(e)
            sh.violation('render', f'render-escape:db.{what}:{cls}@{where}', f'{cls}: {str(e)[:200]}',
                         {'kind': 'text', 'text': text, 'props': props}, feats)
    for kind, el in elements(db):
        for what in ('dbml', 'sql'):
            if not hasattr(type(el), what):
                continue
            try:
                getattr(el, what)
                sh.count('obs.element_renders')
            except Exception as e:  # noqa
                cls, where = monitors.classify_exc(e)
                sh.violation('render', f'render-escape:{kind}.{what}:{cls}@{where}', f'{cls}: {str(e)[:200]}',
                             {'kind': 'text', 'text': text, 'props': props}, feats)
    return db


# --------------------------------------------------------------------------- streams
class HostileNamer(gen.Namer):
    def __init__(self, rng, p=0.25):
        super().__init__(rng, gen.CORE_FLAVOURS)
        self.p = p

    def __call__(self, prefix, flavour=None):
        if self.rng.random() < self.p:
            self.n += 1
            a = self.rng.choice(HOSTILE_ATOMS).replace('"', "'").replace('\n', ' ')
            return a if self.rng.random() < 0.4 else f'{a}{self.n}' if self.rng.random() < 0.5 else f'{prefix}{self.n}{a}'
        return super().__call__(prefix, flavour)


class HostileTexts(gen.Texts):
    def line(self, tag='x'):
        if self.rng.random() < 0.35:
            self.n += 1
            a = self.rng.choice(HOSTILE_ATOMS + ['\n', ' \n ', '\n\n', 'a\n b\n  c', '  \n  x\n', '\t', '\x0c\n\x0c', '\xa0\n\xa0',
                                                 ' \r\n ', '\u2003\n', '\n\x0b\n'])
            return a if self.rng.random() < 0.5 else f'{tag}{self.n} {a} end'
        return super().line(tag)


def hostile_doc(rng):
    import unittest.mock as mock
    with mock.patch.object(gen, 'Namer', lambda r, fl=None, ov=None, **kw: HostileNamer(r)), \
            mock.patch.object(gen, 'Texts', lambda r, pf='plain', **kw: HostileTexts(r, pf)):
        doc = gen.random_doc(rng, rng.choice(['tiny', 'small', 'small']), 'rich', props=rng.random() < 0.4)
    # hostile types / defaults / expressions
    for t in doc.tables:
        for c in t.columns:
            if rng.random() < 0.15:
                c.type = am.ColType('quoted', rng.choice(HOSTILE_ATOMS).replace('"', "'").replace('\n', ' '))
            if rng.random() < 0.1:
                c.default = am.Default('expr', rng.choice(['{x}', '{}', "a'b", '%s', 'f({0})', ')(', '', ' ']))
    return doc


SITES = ['table', 'schema', 'alias', 'column', 'type', 'enum', 'enumitem', 'refname', 'group', 'project', 'projkey', 'projval',
         'sticky', 'stickytext', 'tnote', 'cnote', 'inote', 'einote', 'gnote', 'pnote', 'default', 'ixname', 'tprop', 'cprop',
         'comment', 'expr']


def site_doc(site, s):
    """minimal document with string `s` at one site (identifier sites are double-quoted, text sites use the
    writer's escaping, so the parser really receives `s`)"""
    d = am.Doc(allow_properties=True)
    t = am.Table('public', 'tbl')
    c = am.Column('col', am.ColType('plain', 'int'))
    t.columns.append(c)
    t2 = am.Table('public', 'oth', columns=[am.Column('oc', am.ColType('plain', 'int'))])
    d.tables += [t, t2]
    e = am.Enum('public', 'en', [am.EnumItem('it')])
    d.enums.append(e)
    r = am.Ref('>', 0, ['col'], 1, ['oc'])
    d.refs.append(r)
    g = am.Group('grp', [0])
    d.groups.append(g)
    p = am.Project('prj', [('k', 'v')])
    d.project = p
    st = am.Sticky('stk', 'text')
    d.stickies.append(st)
    ix = am.Index([('col', 'col')])
    t.indexes.append(ix)
    ident = s.replace('"', "'").replace('\n', ' ')
    if site == 'table':
        t.name = ident
    elif site == 'schema':
        t.schema = ident
    elif site == 'alias':
        t.alias = ident
    elif site == 'column':
        c.name = ident
        r.cols1 = [ident]
        ix.subjects = [('col', ident)]
    elif site == 'type':
        c.type = am.ColType('quoted', ident)
    elif site == 'enum':
        e.name = ident
    elif site == 'enumitem':
        e.items[0].name = ident
    elif site == 'refname':
        r.name = ident
    elif site == 'group':
        g.name = ident
    elif site == 'project':
        p.name = ident
    elif site == 'projkey':
        p.items = [(ident, 'v')]
    elif site == 'projval':
        p.items = [('k', s)]
    elif site == 'sticky':
        st.name = ident
    elif site == 'stickytext':
        st.text = s
    elif site == 'tnote':
        t.note = s
    elif site == 'cnote':
        c.note = s
    elif site == 'inote':
        ix.note = s
    elif site == 'einote':
        e.items[0].note = s
    elif site == 'gnote':
        g.note = s
    elif site == 'pnote':
        p.note = s
    elif site == 'default':
        c.default = am.Default('str', s)
    elif site == 'ixname':
        ix.name = s
    elif site == 'tprop':
        t.props = [('pk', s)]
    elif site == 'cprop':
        c.props = [('ck', s)]
    elif site == 'comment':
        t.comment = s.replace('\n', ' ')
        r.comment = s.replace('\n', ' ')
    elif site == 'expr':
        c.default = am.Default('expr', s.replace('`', "'"))
    d.default_order()
    return d


def mutate(rng, text):
    ops = rng.randint(1, 3)
    for _ in range(ops):
        if not text:
            break
        k = rng.randrange(len(text))
        op = rng.choice(['del', 'dup', 'ins', 'swap', 'delline', 'dupline', 'trunc', 'inschunk'])
        if op == 'del':
            n = rng.randint(1, 4)
            text = text[:k] + text[k + n:]
        elif op == 'dup':
            n = rng.randint(1, 8)
            text = text[:k] + text[k:k + n] + text[k:]
        elif op == 'ins':
            text = text[:k] + rng.choice(['{', '}', '[', ']', "'", '"', '`', '\\', '\n', ':', ',', '.', '(', ')', '#', '/', '*', ' ', '﻿', '\x00', '%', '<', '>', '-']) + text[k:]
        elif op == 'swap':
            j = rng.randrange(len(text))
            a, b = min(k, j), max(k, j)
            text = text[:a] + text[b:b + 1] + text[a + 1:b] + text[a:a + 1] + text[b + 1:]
        elif op == 'delline':
            ls = text.split('\n')
            del ls[rng.randrange(len(ls))]
            text = '\n'.join(ls)
        elif op == 'dupline':
            ls = text.split('\n')
            j = rng.randrange(len(ls))
            ls.insert(rng.randrange(len(ls) + 1), ls[j])
            text = '\n'.join(ls)
        elif op == 'trunc':
            text = text[:k]
        else:
            text = text[:k] + rng.choice(DBML_TOKENS) + text[k:]
    return text


def plan(tier, seed):
    return [{'shard': i, 'of': 16} for i in range(16)]


GROWTH_FAMILIES = {
    # name -> text of size parameter k; parsing time must not explode with k (termination on every input)
    'blank-lines-inside-note': lambda k: "Table t {\n  id int\n  Note: '''\nfirst" + '\n' * k + "last\n'''\n}\n",
    'blank-lines-before-note-text': lambda k: "Table t {\n  id int\n  Note: '''" + '\n' * k + "text\n'''\n}\n",
    'blank-lines-after-note-text': lambda k: "Note s {\n'''text" + '\n' * k + "'''\n}\n",
    'blank-lines-with-blanks-inside-note': lambda k: "Table t {\n  id int [note: '''a" + '  \n' * k + "b''']\n}\n",
    'blank-lines-between-elements': lambda k: 'Table t {\n  id int\n}' + '\n' * k + 'Enum e {\n  a\n}\n',
    'blanks-before-line-end': lambda k: 'Table t {\n  id int' + ' ' * k + '\n}\n',
    'long-comment-run': lambda k: '//' + ' x' * k + '\nTable t {\n  id int ' + '/* c */ ' * (k // 4) + '\n}\n',
    'nested-brackets-in-type': lambda k: 'Table t {\n  id int' + '(1' * min(k, 15) + ')' * min(k, 15) + '\n}\n',
    'quotes-run-in-note': lambda k: "Table t {\n  id int [note: 'a" + "\\'" * k + "b']\n}\n",
    'backslashes-in-note': lambda k: "Table t {\n  id int [note: 'a" + '\\\\' * k + "b']\n}\n",
}


def growth_probe(sh):
    """'parsing terminates': each family is parsed for growing sizes in a child process (a runaway regular expression
    cannot be interrupted in-process).  The verdict is relative: the largest size may take at most 40 x the smallest one
    plus half a second; only a child that exceeds its generous timeout AND a blown ratio make a violation, a slow machine
    scales both ends alike."""
    import subprocess
    import sys
    import time
    prog = ('import sys, time\nfrom pydbml import PyDBML\nsrc = sys.stdin.read()\nt = time.perf_counter()\n'
            'try:\n    PyDBML(src)\n    r = "OK"\nexcept Exception as e:\n    r = type(e).__name__\nprint(r, time.perf_counter() - t)\n')
    for fam, mk in GROWTH_FAMILIES.items():
        times = {}
        for k in (12, 18, 24, 30, 60):
            try:
                p = subprocess.run([sys.executable, '-c', prog], input=mk(k), stdout=subprocess.PIPE, stderr=subprocess.PIPE, text=True, timeout=40)
                times[k] = float(p.stdout.split()[-1]) if p.stdout.split() else None
            except subprocess.TimeoutExpired:
                times[k] = 'timeout'
                break
        sh.case(['growth', fam], nontrivial=True, sample={'stream': 'growth', 'family': fam, 'seconds': {str(a): b for a, b in times.items()}})
        sh.count('obs.inputs.growth')
        base = times.get(12)
        worst = [v for v in times.values() if v == 'timeout' or isinstance(v, float)]
        if not isinstance(base, float):
            sh.inconclusive.append(f'growth probe {fam}: no base measurement')
            continue
        blown = [k for k, v in times.items() if v == 'timeout' or (isinstance(v, float) and v > 40 * base + 0.5)]
        if blown:
            sh.violation('parse', f'termination:parse-time-explodes:{fam}', f'{fam}: seconds by size {times}',
                         {'kind': 'text', 'text': mk(30), 'props': False}, {'stream': 'growth', 'family': fam})


def run_shard(spec, tier, seed, budget_s):
    sh = Shard(ID, budget_s)
    i, n = spec['shard'], spec['of']
    rng = random.Random(f'{seed}-c08-{i}')
    # trivial inputs (shard 0)
    if i == 0:
        for t in ['', ' ', '\n', '\n\n\n', '// only a comment', '// c\n', '/* block */', '/* a\nb */\n', '﻿', '﻿\n',
                  '﻿Table t {\n a int\n}', '﻿﻿Table t {\n a int\n}', '\t', '\r\n', 'Table', '{', '}', "'", '"', '`', '\x00']:
            run_input(sh, t, 'trivial')
        # one-line texts that look like something else (a file name, a path, a URL, an option): they are DBML text all the same
        for t in ['schema.dbml', '// generated from schema.dbml', '/* see legacy.dbml', '// x.DBML', 'a.dbml\n', './schema.dbml', '/tmp/x.dbml',
                  'C:\\schema.dbml', 'file:///x.dbml', 'http://example.com/x.dbml', '-', '--help', '~', '.', '..', '/', 'None', 'null', '0',
                  'Table t {\n a int\n} // a.dbml', '// a.sql', 'schema.json', 'Note n {\n \'x.dbml\'\n}']:
            run_input(sh, t, 'trivial')
        for depth in (1, 5, 10, 20, 40, 200, 2000):
            run_input(sh, 'Table t {\n a int' + '(' * depth + 'x' + ')' * depth + '\n}', 'nesting', depth=depth)
            run_input(sh, 'Table t {\n a int [default: `' + '(' * depth + 'x' + ')' * depth + '`]\n}', 'nesting', depth=depth)
    # exhaustive short strings per site
    maxlen = {'quick': 2, 'thorough': 3}[tier]
    strings = ['']
    for L in range(1, maxlen + 1):
        strings += [''.join(p) for p in itertools.product(ALPHA12, repeat=L)]
    # whitespace-only texts made of characters other than blank / tab / newline, alone and around a line break
    strings += WS_EXOTIC + [a + '\n' + b for a in WS_EXOTIC[:4] for b in ('', ' ', a)] + [' ' + a for a in WS_EXOTIC[:4]]
    combos = [(site, s) for site in SITES for s in strings]
    for j, (site, s) in enumerate(combos):
        if j % n != i:
            continue
        if sh.out_of_time():
            sh.inconclusive.append('exhaustive short-string sweep did not finish in the time budget')
            break
        doc = site_doc(site, s)
        text = surface.render(doc, j, surface.CANON)
        run_input(sh, text, 'short@' + site, props=True, feats={'site': site, 'string': s})
    # hostile literals in the default position
    if i == 1:
        for lit in ['1.2.3', '1..2', '10.0.0.1', '.5', '5.', '1e5', '-1', '+1', '0x10', '1_000', '１２', '1.', '..', 'tru', 'nul', 'NULLL', '`', '``', "''", '""',
                    '007', '01', '00', '0.50', '00.25', '9' * 5000, '1.' + '9' * 5000, '0' * 400 + '1',
                    "'''", '#fff', '1 2', '1,2', '(1)', '[1]', '{1}']:
            run_input(sh, 'Table t {\n a int [default: ' + lit + ']\n}', 'literal', feats={'literal': lit})
            run_input(sh, 'Table t {\n a int [default: ' + lit + ', pk]\n b int\n}', 'literal', feats={'literal': lit})
    if i == 2:
        for ty in ['decimal(10,\n 2)', 'varchar(\n255\n)', "enum('a',\n'b')", 'numeric(10,\n\n2)', 'f(g(\n1))', 'x(\n)']:
            run_input(sh, 'Table t {\n a ' + ty + '\n b int\n}', 'multiline-type', feats={'type': ty})
            run_input(sh, 'Table t {\n a ' + ty + ' [pk, note: \'n\']\n}\nRef: t.a > t.a', 'multiline-type', feats={'type': ty})
        for fld in ['version: 2', 'public: true', 'x: null', 'y: 1.5', 'z: `e`', "k: 'v' extra", 'k:', ': \'v\'', 'k k2: \'v\'', "k: 'a' 'b'"]:
            run_input(sh, 'Project p {\n  ' + fld + '\n}\nTable t {\n a int\n}', 'project-field', feats={'field': fld})
    if i in (3, 4, 5):
        # coincidences between references and names: every reference form over every pair of endpoints of three small tables,
        # including the same column on both sides, repeated columns, arities that differ, composite inline targets and
        # join-table column names that coincide (a.b_c / a_b.c); whatever is accepted has to render
        tabs = 'Table a {\n  x int\n  y int\n  b_c int\n}\nTable b {\n  z int\n  w int\n}\nTable a_b {\n  c int\n  x int\n}\n'
        ends = ['a.x', 'a.y', 'a.b_c', 'b.z', 'b.w', 'a_b.c', 'a_b.x', 'a.(x, y)', 'a.(x, x)', 'b.(z, w)', 'b.(z)', 'a.(x)', 'a_b.(c, x)']
        kinds = ['>', '<', '-', '<>']
        if i == 3:
            for e1 in ends:
                for e2 in ends:
                    for kd in kinds:
                        run_input(sh, tabs + f'Ref: {e1} {kd} {e2}\n', 'refshape', feats={'form': 'short'})
        elif i == 4:
            for e1 in ends:
                for e2 in ends:
                    kd = kinds[(len(e1) + len(e2)) % 4]
                    run_input(sh, tabs + f'Ref named {{\n  {e1} {kd} {e2} [delete: cascade]\n}}\n', 'refshape', feats={'form': 'block'})
        else:
            for e2 in ends:
                for kd in kinds:
                    run_input(sh, f'Table a {{\n  x int [ref: {kd} {e2}]\n  y int\n  b_c int\n}}\nTable b {{\n  z int\n  w int\n}}\nTable a_b {{\n  c int\n  x int\n}}\n',
                              'refshape', feats={'form': 'inline'})
                    run_input(sh, f'Table node {{\n  id int [ref: {kd} node.id]\n  up int [ref: {kd} node.(id, up)]\n}}\n', 'refshape', feats={'form': 'inline-self'})
            # documents that declare no table and still name one
            for body in ('Ref: a.x > b.y\n', 'Ref r {\n  a.x - b.y\n}\n', 'TableGroup g {\n  t\n}\n', 'TableGroup g {\n  s.t\n  u\n}\n',
                         'Enum e {\n  a\n}\nRef: a.x <> a.x\n', 'Project p {\n  k: \'v\'\n}\nTableGroup g {\n  t\n}\n', 'Note n {\n  \'t\'\n}\nRef: a.x < b.y\n'):
                run_input(sh, body, 'refshape', feats={'form': 'tableless'})
    if i == 6:
        growth_probe(sh)
    if i == 7:
        # settings that belong to another kind of element, keys spelled like attributes of the model classes, big counts
        T2 = 'Table t {\n  id int\n  x int\n}\n'
        foreign = ['color: #79AD51', 'headercolor: #fff', 'pk', 'unique', 'type: hash', 'delete: cascade', 'update: no action', 'increment', 'not null',
                   'default: 1', "note: 'n'", "name: 'n'", 'ref: > t.id', 'null', 'primary key']
        for fs in foreign:
            for doc_ in (T2 + f'Ref: t.id > t.x [{fs}]\n', T2 + f'Ref r {{\n  t.id > t.x [{fs}, delete: cascade]\n}}\n', f'Table t [{fs}] {{\n  id int\n}}\n',
                         f'Table t {{\n  id int [{fs}]\n}}\n', f'Table t {{\n  id int\n  indexes {{\n    id [{fs}]\n  }}\n}}\n', f'Enum e {{\n  a [{fs}]\n}}\n',
                         T2 + f'TableGroup g [{fs}] {{\n  t\n}}\n', f'Table t {{\n  id int [ref: > t.id, {fs}]\n}}\n'):
                run_input(sh, doc_, 'foreign-setting', props=False)
                run_input(sh, doc_, 'foreign-setting', props=True)
        attrs = ['items', 'name', 'note', 'comment', 'database', 'dbml', 'sql', 'properties', 'table', 'type', 'columns', 'indexes', 'schema', 'alias',
                 '__dict__', '__class__', 'self', 'parent', 'text', 'refs', 'tables', 'project']
        for a_ in attrs:
            for q_ in (a_, f'"{a_}"'):
                run_input(sh, f"Project p {{\n  {q_}: '42'\n  other: 'v'\n}}\n" + T2, 'attribute-like-key')
                run_input(sh, f"Table t {{\n  id int [{q_}: 'v']\n  {q_}: 'w'\n}}\n", 'attribute-like-key', props=True)
        for n_ in (50, 200, 1000):
            cols = ''.join(f'  c{j} int\n' for j in range(n_))
            subj = ', '.join(f'c{j}' for j in range(n_))
            run_input(sh, f'Table t {{\n{cols}  indexes {{\n    ({subj})\n    ({subj}) [pk]\n  }}\n}}\n', 'count', feats={'n': n_})
            run_input(sh, f'Table t {{\n{cols}}}\nTable u {{\n{cols}}}\nRef: t.({subj}) > u.({subj})\n', 'count', feats={'n': n_})
            run_input(sh, 'Enum e {\n' + ''.join(f'  i{j}\n' for j in range(n_ * 5)) + '}\n', 'count', feats={'n': n_})
            run_input(sh, 'Table t {\n  id int [' + ', '.join(['pk', 'unique', 'not null', "note: 'n'"] * (n_ // 4)) + ']\n}\n', 'count', feats={'n': n_})
            run_input(sh, 'Table t {\n  id int [' + ', '.join(f"k{j}: 'v'" for j in range(n_)) + ']\n}\n', 'count', props=True, feats={'n': n_})
            run_input(sh, T2 + 'TableGroup g {\n' + '  t\n' * 1 + '}\n' + ''.join(f'Table t{j} {{\n  id int [ref: > t.id]\n}}\n' for j in range(n_)), 'count', feats={'n': n_})
            run_input(sh, 'Project p {\n' + ''.join(f"  k{j}: 'v{j}'\n" for j in range(n_)) + '}\n' + T2, 'count', feats={'n': n_})
            run_input(sh, "Table t {\n  id int [note: '" + 'x' * (n_ * 1000) + "']\n}\n", 'count', feats={'n': n_})
            run_input(sh, 'Table t {\n  id ' + 'a.' * 1 + 'b' + '(' + ','.join(['1'] * n_) + ')\n}\n', 'count', feats={'n': n_})
    # hostile substitution
    k = 0
    target = {'quick': 150, 'thorough': 6000}[tier]
    while k < target and not sh.out_of_time():
        k += 1
        doc = hostile_doc(rng)
        text = surface.render(doc, f'{seed}-{i}-{k}')
        run_input(sh, text, 'hostile', props=doc.allow_properties)
    # mutations and token soup
    k = 0
    target = {'quick': 150, 'thorough': 6000}[tier]
    while k < target and not sh.out_of_time():
        k += 1
        doc = gen.random_doc(rng, 'small', 'rich', props=rng.random() < 0.3)
        text = surface.render(doc, f'{seed}-{i}-m{k}')
        run_input(sh, mutate(rng, text), 'mutation', props=doc.allow_properties)
        soup = ' '.join(rng.choice(DBML_TOKENS) for _ in range(rng.randint(1, 40)))
        run_input(sh, soup, 'soup', props=rng.random() < 0.3)
    return sh


def conclusive(agg, tier):
    c = agg['counters']
    out = []
    for st in ('hostile', 'mutation', 'soup', 'trivial', 'nesting'):
        if not c.get('obs.inputs.' + st):
            out.append(f'stream {st} produced no input')
    h = c.get('obs.inputs.hostile', 0)
    if h and c.get('obs.accepted.hostile', 0) < 0.3 * h:
        out.append(f'hostile-substitution stream: only {c.get("obs.accepted.hostile", 0)}/{h} accepted (< 30%): rendering was hardly exercised')
    if not c.get('obs.element_renders'):
        out.append('no element rendering was evaluated')
    return out


def replay(v):
    sh = Shard(ID)
    case = v['case']
    run_input(sh, case['text'], 'replay', props=case.get('props', False), feats=v.get('features'))
    return sh.violations
