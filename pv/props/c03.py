"""C03 — SQL DDL states exactly the model: types, tables, columns, keys, indexes, notes.

Oracle: pv.sqlread (independent tokenising reader of db.sql) against
pv.expect_sql (expectation computed from the abstract model by the rules in
the property statement).  Both derive from pv.am, neither from pydbml objects.
"""
import random

from pv import am, gen, surface, walk, monitors, apibuild, expect_sql, sqlcheck
from pv.common import parse
from pv.result import Shard

ID = 'C03'
MANIFEST = {
    'text': ('Renders .sql of generated databases (parsed and API-built origin) with the real renderer, reads it back with an '
             'independent tokenising DDL reader and compares CREATE TYPE / CREATE TABLE / column flags and defaults / '
             'PRIMARY KEY clauses / CREATE INDEX / COMMENT ON statements with an expectation derived from the abstract model. '
             'Exhaustive over flags x default kinds (incl. 0, 0.0, false, \'\') x type shapes x pk layouts; sampled over whole databases.'),
    'note': 'free-text atoms are drawn from a DDL-safe alphabet (no quote characters outside expressions, no top-level commas) so that the reader stays unambiguous; hostile text in SQL is covered by C13/C08; trusts pv/sqlread.py and pv/expect_sql.py',
    'technique': 'runtime monitoring: offline checker over recorded output (independent DDL reader) vs model-derived expectation',
}
LEVEL = 'exploration'
BUDGET = {'quick': 60, 'thorough': 400}
RULE = ('databases from the exhaustive product {unique,not null,increment} x 11 defaults (every falsy value) x 6 type shapes '
        'in tables cycling through 6 pk layouts and public/other schema, the C01 column/index/header products and seeded '
        'random whole documents; each in parsed and API-built origin; a case = one database whose .sql is read back; '
        'distinct by hash of the SQL text; non-trivial = at least one table with a flag, default, index, note or schema')
ASSUMPTIONS = ['DDL-safe text atoms (see level_note)', 'CPython/pyparsing trusted']
PARTS = ('type', 'table', 'column', 'pk', 'index', 'comment', 'extra')


def check_sql(sh, doc, db, origin, suite, parts, api=False, text=None):
    try:
        sql = db.sql
    except Exception as e:
        cls, where = monitors.classify_exc(e)
        sh.violation('render', f'sql-raises:{cls}@{where}', f'{cls}: {e}', None, {'suite': suite, 'origin': origin})
        return None
    sh.case(sql, nontrivial=True, sample={'suite': suite, 'origin': origin, 'sql': sql[:1200]})
    sh.count(f'obs.cases.{suite}.{origin}')
    exp = expect_sql.expected(doc, api=api)
    res, rd = sqlcheck.compare(sql, exp)
    kinds = {}
    for s in rd['statements']:
        kinds[s['kind']] = kinds.get(s['kind'], 0) + 1
    for k, n in kinds.items():
        sh.count('obs.statements.' + k, n)
    for key, t in exp['tables'].items():
        if len(key) == 2:
            sh.count('class.schema_qualified_table')
        if any(len(p) > 1 for p in t['pks']):
            sh.count('class.composite_pk_clause')
        if t['indexes']:
            sh.count('class.table_with_index')
        if t['comments']:
            sh.count('class.table_with_comment_on')
    if 'column' in parts:
        # whitespace inside a type, a string default or an expression is part of the text: the tokenising reader squashes
        # it, so the exact fragments are looked up in the raw script as well
        for t in doc.tables:
            for c in t.columns:
                ty = expect_sql.type_text(doc, c.type) if c.type.kind == 'enum' else c.type.text
                frag = f'"{c.name}" ' + ('.'.join(f'"{x}"' for x in expect_sql.qn(doc.enums[c.type.enum].schema, doc.enums[c.type.enum].name))
                                         if c.type.kind == 'enum' else ty)
                sh.count('obs.verbatim_fragments')
                if frag not in sql:
                    res.append(('column', 'column-text-not-verbatim', f'{frag!r} does not occur in the script'))
                d = c.default
                if d is not None and d.kind in ('str', 'expr') and d.value != '':
                    f2 = f'DEFAULT ({d.value})' if d.kind == 'expr' else f'DEFAULT {d.value}'
                    if f2 not in sql:
                        res.append(('column', 'default-text-not-verbatim', f'{f2!r} does not occur in the script'))
    for part, klass, detail in res:
        if part in parts:
            sh.violation(part, f'{part}:{klass}', detail,
                         {'kind': 'sql', 'sql': sql, 'expected': _jsonable(exp), 'text': text,
                          'allow_properties': doc.allow_properties}, {'suite': suite, 'origin': origin})
    if not [r for r in res if r[0] in parts]:
        sh.count('obs.agree')
    return rd


def _jsonable(exp):
    e = dict(exp)
    e['tables'] = {'|'.join(k): v for k, v in exp['tables'].items()}
    e['table_seq'] = ['|'.join(k) for k in exp['table_seq']]
    return e


def both_origins(sh, doc, seed, suite, parts, fn=check_sql, api_inline=False):
    text = surface.render(doc, seed)
    db, err = parse(text, allow_properties=doc.allow_properties)
    if err is None:
        fn(sh, doc, db, 'parsed', suite, parts, text=text)
    else:
        sh.count('obs.source_rejected')
    fn(sh, doc, apibuild.build(doc, api_inline=api_inline), 'api', suite, parts, api=api_inline,
       text=None if api_inline else text)


def edit_and_recheck(sh, doc, rng, seed, parts):
    """render once, edit the live model in place (the same edit is applied to a copy of the abstract document),
    render again: the second DDL must state the edited model (no stale layout from the first rendering)"""
    import copy
    d2 = copy.deepcopy(doc)
    db = apibuild.build(d2)
    try:
        db.sql
    except Exception:
        return
    order = [i for k, i in d2.order if k == 't']
    n = 0
    for k, ti in enumerate(order):
        T, A = db.tables[k], d2.tables[ti]
        for c, a in zip(T.columns, A.columns):
            if rng.random() < 0.35:
                what = rng.choice(['pk', 'unique', 'not_null', 'autoinc', 'default', 'default-none'])
                if what == 'default':
                    a.default = am.Default('int', rng.choice([0, 3, 77]))
                    c.default = a.default.value
                elif what == 'default-none':
                    a.default = None
                    c.default = None
                else:
                    v = not getattr(a, what)
                    setattr(a, what, v)
                    setattr(c, what, v)
                n += 1
        for ix, ai in zip(T.indexes, A.indexes):
            if rng.random() < 0.3:
                ai.unique = not ai.unique
                ix.unique = ai.unique
                n += 1
        if rng.random() < 0.3:
            A.name = A.name + '_rn'
            T.name = A.name
            n += 1
        if rng.random() < 0.15 and not any(c_.inline_refs for c_ in A.columns) and \
                not any(r_.inline and (T is r_.table1 or T is r_.table2) for r_ in db.refs):
            # the `abstract` flag only concerns inline foreign keys; a table without any is stated exactly as before
            T.abstract = True
            n += 1
            sh.count('obs.tables_flagged_abstract')
    if n:
        sh.count('obs.edits_before_second_render', n)
        check_sql(sh, d2, db, 'api', 'edited', parts)


def api_oddities(sh, rng, tag):
    """hand-built models outside the document generator's shapes: a table without columns that carries an expression-only
    index, and an index that another table refused (rejected add_index): every CREATE INDEX of the script must name the
    table that owns the index, qualified as in its CREATE TABLE, and there must be exactly one statement per owned index"""
    from pydbml import Database
    from pydbml.classes import Column, Expression, Index, Table
    from pv import sqlread
    nm = gen.Namer(rng)
    db = Database()
    schema = rng.choice([None, nm('s')])
    kw = {'schema': schema} if schema else {}
    empty = Table(nm('t'), **kw)
    empty.add_index(Index([Expression('now()')], name=nm('i'), unique=rng.random() < 0.5))
    own = Table(nm('t'), columns=[Column('id', 'int', pk=True), Column(nm('c'), 'varchar')],
                **({'schema': nm('s')} if rng.random() < 0.5 else {}))
    ix = Index([own.columns[1]], name=nm('i'), unique=True)
    own.add_index(ix)
    other = Table(nm('t'), columns=[Column('id', 'int', pk=True), Column(own.columns[1].name, 'varchar')])
    for t in rng.sample([empty, own, other], 3):
        db.add(t)
    if rng.random() < 0.5:
        db.sql
    try:
        other.add_index(ix)
        sh.count('obs.oddities.foreign_index_accepted')
    except Exception:
        sh.count('obs.oddities.foreign_index_refused')
    try:
        sql = db.sql
    except Exception as e:
        cls, where = monitors.classify_exc(e)
        sh.violation('render', f'sql-raises:{cls}@{where}', f'{cls}: {e}', None, {'suite': 'oddities'})
        return
    sh.case(sql, nontrivial=True, sample={'suite': 'oddities', 'sql': sql[:600]})
    sh.count('obs.cases.oddities.api')
    rd = sqlread.read(sql)
    got = sorted((s.get('name'), tuple(s.get('on') or ())) for s in rd['statements'] if s['kind'] == 'create_index')
    want = sorted((i.name, tuple(x for x in (t.schema if t.schema != 'public' else None, t.name) if x))
                  for t in db.tables for i in t.indexes)
    sh.count('obs.oddities.index_statements', len(got))
    if got != want:
        sh.violation('index', 'index:index-on-wrong-or-missing-table', f'{tag}: CREATE INDEX (name, ON) {got} != owned indexes {want}',
                     {'kind': 'oddity', 'sql': sql}, {'suite': 'oddities'})
    if ix.table is not own:
        sh.violation('index', 'index:refused-index-relinked', f'{tag}: an index refused by another table no longer points at its owner', None, {'suite': 'oddities'})


def plan(tier, seed):
    return [{'shard': i, 'of': 16} for i in range(16)]


def run_shard(spec, tier, seed, budget_s):
    sh = Shard(ID, budget_s)
    i, n = spec['shard'], spec['of']
    with monitors.ReachMonitor() as reach:
        prng = random.Random(f'{seed}-products')
        products = []
        for name, fn in (('sqlcolumn', gen.sql_column_product), ('column', gen.column_product),
                         ('index', gen.index_product), ('header', gen.header_product)):
            for d in fn(prng):
                products.append((name, d))
        for j, (name, doc) in enumerate(products):
            if j % n != i or sh.out_of_time():
                continue
            if tier == 'quick' and name == 'column' and (j // n) % 4:
                continue
            both_origins(sh, doc, f'{seed}-{j}', 'product.' + name, PARTS)
        rng = random.Random(f'{seed}-random-{i}')
        k = 0
        target = {'quick': 300, 'thorough': 4000}[tier]
        while k < target and not sh.out_of_time():
            k += 1
            size = rng.choice(['tiny', 'small', 'small', 'medium'] + (['large'] if tier == 'thorough' else []))
            if k <= 2:
                size = 'large'          # a few big documents in every tier (many tables, references, indexes)
            doc = gen.random_doc(rng, size, 'plain')
            suite = 'random'
            if rng.random() < 0.2 and gen.same_bare_names(doc, rng):
                suite = 'samebare'      # equal bare table names in different schemas
            both_origins(sh, doc, f'{seed}-{i}-{k}', suite, PARTS)
            if k % 3 == 0:
                edit_and_recheck(sh, doc, rng, f'{seed}-{i}-{k}', PARTS)
            if k % 5 == 0:
                api_oddities(sh, rng, f'{seed}-{i}-{k}')
            if k % 4 == 0:
                # notes given as Note objects, one object shared by every owner with the same text
                import copy
                d3 = copy.deepcopy(doc)
                shared = 'shared note text'
                for t in d3.tables[:3]:
                    t.note = shared
                    if t.columns:
                        t.columns[0].note = shared
                check_sql(sh, d3, apibuild.build(d3, note_objects=True), 'api', 'sharednote', PARTS)
    for k2, v in reach.counts.items():
        if k2.startswith('renderer.sql'):
            sh.count('reach.' + k2, v)
    return sh


def conclusive(agg, tier):
    c = agg['counters']
    out = []
    for k in ('obs.cases.product.sqlcolumn.api', 'obs.cases.product.sqlcolumn.parsed', 'obs.cases.random.api', 'obs.cases.samebare.api', 'obs.cases.edited.api', 'obs.cases.oddities.api', 'obs.oddities.foreign_index_refused',
              'obs.cases.random.parsed', 'class.schema_qualified_table', 'class.composite_pk_clause',
              'class.table_with_index', 'class.table_with_comment_on', 'obs.statements.create_table',
              'obs.statements.create_index', 'obs.statements.comment_on', 'obs.statements.create_type'):
        if not c.get(k):
            out.append(f'{k} is zero')
    return out


def replay(v):
    sh = Shard(ID)
    case = v.get('case') or {}
    if case.get('kind') == 'sql':
        exp = case['expected']
        exp['tables'] = {tuple(k.split('|')): t for k, t in exp['tables'].items()}
        exp['table_seq'] = [tuple(k.split('|')) for k in exp['table_seq']]
        sql, how = case['sql'], 'recorded SQL re-read: '
        if case.get('text'):
            db, err = parse(case['text'], allow_properties=case.get('allow_properties', False))
            if err is None:
                sql, how = db.sql, 're-rendered from the source document: '
        res, rd = sqlcheck.compare(sql, exp)
        for part, klass, detail in res:
            if part in globals().get('PARTS', ()):
                sh.violation(part, f'{part}:{klass}', how + detail, case)
    return sh.violations
