"""C01 — Parsing is faithful.

Oracle: expected content computed from the abstract model (pv.am) alone vs the
content read from the Database returned by the real parser (pv.walk), for
several independent surface renderings (pv.surface styles) of the same model.
"""
import random

from pv import am, gen, surface, walk, monitors
from pv.common import parse, skeleton, path_skeleton
from pv.result import Shard, digest

ID = 'C01'
MANIFEST = {
    'text': ('Runs the real parser on ~10k (quick) / ~150k (thorough) generated (document, style) cases and compares the '
             'returned Database, attribute by attribute and in order, with an expectation computed from the abstract '
             'model only; exhaustive inside the per-element feature products, sampled over whole-document structure. '
             'Held means: no disagreement on the executions listed in the evidence.'),
    'note': 'trusts pv/surface.py to write well-formed DBML; trusts CPython/pyparsing; says nothing about inputs outside the generated classes',
    'technique': 'runtime monitoring: model-based differential oracle over generated documents x style vectors (metamorphic across spellings)',
}
LEVEL = 'exploration'
BUDGET = {'quick': 60, 'thorough': 420}
RULE = ('abstract documents (exhaustive per-element products: column flags x default kind x note x inline ref x type; '
        'index shape x options; headers; ref kind x form x action pairs x name x arity; plus seeded random whole '
        'documents) each written by an independent DBML writer in several random style vectors (identifier quoting, '
        'keyword case, blank lines/indentation, string style, settings order and layout, note/index position, ref form, '
        'table addressing) and as an inline->standalone variant; a case = (document, style) and is distinct by the '
        'hash of its text; non-trivial = it has >= 2 element kinds or a non-default setting')
ASSUMPTIONS = [
    'my DBML writer (pv/surface.py) emits only well-formed DBML as described in DESIGN.md 3.0 (one element per line, '
    'singleton declarations at most once, no tab/CR in text)',
    'CPython and pyparsing are trusted',
]
EXHAUSTIVE = {}
STYLES = {'quick': 3, 'thorough': 6}


def plan(tier, seed):
    n = 16
    specs = []
    for i in range(n):
        specs.append({'shard': i, 'of': n})
    return specs


def check_doc(sh, doc, style_seed, knobs=None, label='random', expect=None):
    text = surface.render(doc, style_seed, knobs)
    exp = expect if expect is not None else am.expected(doc)
    feats = gen.features(doc)
    sh.case(text, nontrivial=len(feats) >= 1, sample={'suite': label, 'text': text[:1500]})
    sh.count('obs.docs.' + label)
    for k_ in getattr(doc, 'classes', ()):
        sh.count('obs.class.' + k_)
    db, err = parse(text, allow_properties=doc.allow_properties)
    case = {'kind': 'parse_compare', 'text': text, 'expected': exp,
            'allow_properties': doc.allow_properties}
    if err is not None:
        cls, where = monitors.classify_exc(err)
        sh.violation('parse', f'rejected:{cls}:{skeleton(err)}', f'{cls}: {err}', case,
                     {'suite': label})
        return None
    got = walk.content(db)
    d = am.diff(exp, got)
    if d:
        sh.violation('content', 'content:' + path_skeleton(d[0]), d[:6], case, {'suite': label})
    else:
        sh.count('obs.agree')
    sh.count('obs.tables', len(got['tables']))
    sh.count('obs.columns', sum(len(t['columns']) for t in got['tables']))
    sh.count('obs.refs', len(got['refs']))
    return got


# --------------------------------------------------------------------------- same-line layouts
def line_kind(ctx, text):
    """coarse class of one logical line of a canonically written document"""
    import re
    s_ = text.strip()
    first = s_.split('\n')[0]
    if s_ == '}':
        return 'close:' + ctx
    if s_.endswith('{'):
        return 'open:' + first.split()[0].lower().rstrip(':')
    low = first.lower()
    if low.startswith('note:') or low.startswith('note '):
        return 'note:' + ctx
    if ctx == 'top':
        return 'refshort' if low.startswith('ref') else 'top:' + low.split()[0]
    if ctx == 'table_body':
        return 'prop' if re.match(r'^("[^"]*"|\w+)\s*:\s*[\'"]', first) else 'col'
    return 'item:' + ctx


# pairs (kind of the line, kind of the next line) that may share one physical line, separated by a blank.  Calibrated on
# the current tree (PV_C01_CALIBRATE=1 prints the table): a pair is listed when EVERY document with that join was accepted.
# For a listed pair acceptance is required; for any pair, an accepted document must give exactly the expected model.
ADMITTED_JOINS = {
    'close:indexes_body|close:table_body',
    'close:note_block|close:group_body',
    'close:note_block|close:project_body',
    'close:note_block|close:table_body',
    'close:note_block|open:indexes',
    'item:enum_body|item:enum_body',
    'item:group_body|close:group_body',
    'item:group_body|item:group_body',
    'item:group_body|note:group_body',
    'item:group_body|open:note',
    'item:indexes_body|close:indexes_body',
    'item:indexes_body|item:indexes_body',
    'item:note_block|close:note_block',
    'item:project_body|close:project_body',
    'item:project_body|item:project_body',
    'item:project_body|note:project_body',
    'item:project_body|open:note',
    'item:ref_block|close:ref_block',
    'note:group_body|close:group_body',
    'note:project_body|close:project_body',
    'note:table_body|close:table_body',
    'note:table_body|open:indexes',
    'open:enum|item:enum_body',
    'open:indexes|item:indexes_body',
    'open:note|item:note_block',
    'open:project|close:project_body',
    'open:project|item:project_body',
    'open:project|note:project_body',
    'open:project|open:note',
    'open:ref|item:ref_block',
    'open:tablegroup|close:group_body',
    'open:tablegroup|item:group_body',
    'open:tablegroup|note:group_body',
    'open:tablegroup|open:note',
    'open:table|col',
    'prop|close:table_body',
    'prop|note:table_body',
    'prop|open:indexes',
    'prop|open:note',
    'prop|prop',
    'refshort|open:enum',
    'refshort|open:note',
    'refshort|open:project',
    'refshort|open:ref',
    'refshort|open:table',
    'refshort|open:tablegroup',
    'refshort|refshort',
}


def joined_layouts(sh, doc, seed_, calib=None):
    import os
    knobs = dict(surface.CANON, comments='none', note_pos='random', final_newline='yes')
    items, marks = surface.render_lines(doc, seed_, knobs)
    exp = am.expected(doc)
    for i in range(len(items) - 1):
        if i not in marks or i + 1 not in marks:
            continue
        pair = (line_kind(marks[i], items[i]), line_kind(marks[i + 1], items[i + 1]))
        text = '\n'.join(items[:i] + [items[i] + ' ' + items[i + 1].lstrip()] + items[i + 2:]) + '\n'
        sh.case(text, nontrivial=True, sample={'suite': 'joined', 'pair': list(pair), 'text': text[:600]})
        sh.count('obs.docs.joined')
        db, err = parse(text, allow_properties=doc.allow_properties)
        pk = f'{pair[0]}|{pair[1]}|{"props" if doc.allow_properties else "noprops"}'
        case = {'kind': 'parse_compare', 'text': text, 'expected': exp, 'allow_properties': doc.allow_properties}
        if calib is not None:
            calib.setdefault(pk, [0, 0])[0 if err is None else 1] += 1
        if err is not None:
            if not monitors.is_parse_error(err) and type(err).__name__ != 'SyntaxError':
                cls, where = monitors.classify_exc(err)
                sh.violation('parse', f'joined:not-a-syntax-error:{cls}:{pk}', f'{cls}: {err}', case, {'suite': 'joined'})
            elif pk.rsplit('|', 1)[0] in ADMITTED_JOINS:
                sh.violation('parse', f'joined:rejected:{pk}', f'{type(err).__name__}: {err}', case, {'suite': 'joined'})
            else:
                sh.count('obs.joined.rejected')
            continue
        sh.count('obs.joined.accepted')
        d = am.diff(exp, walk.content(db))
        if d:
            sh.violation('content', f'joined:content:{pk}:' + path_skeleton(d[0]), d[:4], case, {'suite': 'joined'})


def run_shard(spec, tier, seed, budget_s):
    sh = Shard(ID, budget_s)
    i, n = spec['shard'], spec['of']
    nstyles = STYLES[tier]
    with monitors.ReachMonitor() as reach:
        # ---- exhaustive products, striped over the shards
        prng = random.Random(f'{seed}-products')
        products = []
        for name, fn in (('column', gen.column_product), ('index', gen.index_product),
                         ('header', gen.header_product),
                         ('ref', lambda r: gen.ref_product(r, full_actions=(tier == 'thorough')))):
            for d in fn(prng):
                products.append((name, d))
        for j, (name, doc) in enumerate(products):
            if j % n != i:
                continue
            for s in range(nstyles):
                check_doc(sh, doc, f'{seed}-{j}-{s}', label='product.' + name)
            check_doc(sh, doc, 0, surface.CANON, label='product.' + name)
            sh.count('obs.product_docs')
        # ---- same-line layouts: every pair of neighbouring logical lines of a canonically written document joined once
        import os
        jrng = random.Random(f'{seed}-joined-{i}')
        calib = {} if os.environ.get('PV_C01_CALIBRATE') else None
        for jk in range({'quick': 6, 'thorough': 80}[tier] * (5 if calib is not None else 1)):
            if sh.out_of_time():
                break
            jdoc = gen.random_doc(jrng, jrng.choice(['tiny', 'small']), 'plain', props=jrng.random() < 0.5, comments=False,
                                  flavours=('bare', 'bare', 'space'), coin=False)
            joined_layouts(sh, jdoc, f'{seed}-{i}-j{jk}', calib)
        if calib is not None:
            for pk, (a_, r_) in calib.items():
                sh.count(f'obs.calib.{pk}.acc', a_)
                sh.count(f'obs.calib.{pk}.rej', r_)
        # ---- random whole documents
        rng = random.Random(f'{seed}-random-{i}')
        k = 0
        target = {'quick': 60, 'thorough': 2500}[tier]
        while k < target and not sh.out_of_time():
            k += 1
            size = rng.choice(['tiny', 'small', 'small', 'medium'] + (['large'] if tier == 'thorough' else []))
            if k <= 2:
                size = 'large'          # a few big documents in every tier (many tables, references, indexes)
            kwp = rng.random() < 0.15
            doc = gen.random_doc(rng, size, text_profile=rng.choice(['plain', 'rich']),
                                 props=rng.random() < 0.3 and not kwp, flavours=('kwprefix',) if kwp else gen.CORE_FLAVOURS,
                                 kwstrings=True)
            label = 'random.kwprefix' if kwp else 'random'
            if not kwp and rng.random() < 0.2 and gen.same_bare_names(doc, rng):
                label = 'random.samebare'      # equal bare table names in different schemas
                if rng.random() < 0.5:
                    # ... and equal column names in those tables, so that a reference bound to the wrong twin still resolves
                    twins = [t for t in doc.tables if t.name == doc.tables[0].name]
                    ren = {}
                    for t in twins[1:]:
                        for a_, b_ in zip(twins[0].columns, t.columns):
                            ren[(id(t), b_.name)] = a_.name
                    for ti, t in enumerate(doc.tables):
                        for c in t.columns:
                            for r in c.inline_refs:
                                key = (id(doc.tables[r.target]), r.col)
                                r.col = ren.get(key, r.col)
                    for r in doc.refs:
                        r.cols1 = [ren.get((id(doc.tables[r.t1]), c), c) for c in r.cols1]
                        r.cols2 = [ren.get((id(doc.tables[r.t2]), c), c) for c in r.cols2]
                    for t in doc.tables:
                        for ix in t.indexes:
                            ix.subjects = [(k_, ren.get((id(t), v), v) if k_ == 'col' else v) for k_, v in ix.subjects]
                        for c in t.columns:
                            c.name = ren.get((id(t), c.name), c.name)
            if doc.enums and rng.random() < 0.25:
                # name-sake document first: the same column type names, but no enum declares them (plain types);
                # what a name meant in an earlier document must not matter for the next one
                import copy
                da = copy.deepcopy(doc)
                for t in da.tables:
                    for c in t.columns:
                        if c.type.kind == 'enum':
                            e = da.enums[c.type.enum]
                            if am.__dict__['BARE_OK'](e.name) and am.__dict__['BARE_OK'](e.schema):
                                c.type = am.ColType('plain', e.name) if e.schema == 'public' else am.ColType('dotted', f'{e.schema}.{e.name}')
                            else:
                                c.type = am.ColType('quoted', e.name)
                da.enums = []
                da.order = [(k_, i_) for k_, i_ in da.order if k_ != 'e']
                check_doc(sh, da, f'{seed}-{i}-{k}-ns', label='random.namesake')
            exp = am.expected(doc)
            for s in range(nstyles):
                check_doc(sh, doc, f'{seed}-{i}-{k}-{s}', expect=exp, label=label)
            if rng.random() < 0.15:
                # the same document from a file with CRLF line ends, handed in as a path and as an open file: the stored
                # texts are the ones of the document (no stray carriage returns)
                import os
                import tempfile
                from pathlib import Path
                from pydbml import PyDBML
                text_ = surface.render(doc, f'{seed}-{i}-{k}-crlf')
                fd, pth = tempfile.mkstemp(suffix='.dbml', dir=os.environ.get('PV_SCRATCH') or None)
                try:
                    with os.fdopen(fd, 'w', encoding='utf8', newline='') as f:
                        f.write(text_.replace('\n', '\r\n'))
                    for route in ('Path', 'file', 'parse_file'):
                        try:
                            if route == 'Path':
                                dbf = PyDBML(Path(pth), allow_properties=doc.allow_properties)
                            elif route == 'file':
                                with open(pth, encoding='utf8') as fh:
                                    dbf = PyDBML(fh, allow_properties=doc.allow_properties)
                            elif doc.allow_properties:
                                continue
                            else:
                                dbf = PyDBML.parse_file(pth)
                        except Exception as e:  # noqa
                            cls, where = monitors.classify_exc(e)
                            sh.violation('parse', f'rejected:{cls}:crlf-file-{route}', f'{cls}: {e}', {'kind': 'parse_compare', 'text': text_, 'expected': exp,
                                         'allow_properties': doc.allow_properties}, {'suite': 'crlf-file'})
                            continue
                        sh.count('obs.docs.crlf-file')
                        d_ = am.diff(exp, walk.content(dbf))
                        if d_:
                            sh.violation('content', f'content:crlf-file-{route}:' + path_skeleton(d_[0]), d_[:4], {'kind': 'parse_compare', 'text': text_, 'expected': exp,
                                         'allow_properties': doc.allow_properties}, {'suite': 'crlf-file'})
                finally:
                    os.unlink(pth)
            # metamorphic: inline -> standalone
            d2 = gen.inline_to_standalone(doc, rng)
            exp2 = am.expected(d2)
            check_doc(sh, d2, f'{seed}-{i}-{k}-m', label='random.standalone', expect=exp2)
            e1 = [dict(r, inline=False) for r in exp['refs']]
            if e1 != exp2['refs']:
                sh.violation('self', 'harness:inline_to_standalone', 'transform changed the expected refs')
    for k2, v in reach.counts.items():
        if k2.startswith('definitions.') or k2.startswith('parser.'):
            sh.count('reach.' + k2, v)
    return sh


def conclusive(agg, tier):
    c = agg['counters']
    out = []
    for k in ('obs.docs.product.column', 'obs.docs.product.index', 'obs.docs.product.ref',
              'obs.docs.random', 'obs.docs.random.samebare', 'obs.docs.random.kwprefix', 'obs.docs.random.standalone',
              'obs.docs.joined', 'obs.joined.accepted'):
        if not c.get(k):
            out.append(f'sub-suite {k} executed no case')
    return out


def replay(v):
    case = v['case']
    sh = Shard(ID)
    db, err = parse(case['text'], allow_properties=case.get('allow_properties', False))
    if err is not None:
        cls, where = monitors.classify_exc(err)
        sh.violation('parse', f'rejected:{cls}:{skeleton(err)}', f'{cls}: {err}', case)
    else:
        d = am.diff(case['expected'], walk.content(db))
        if d:
            sh.violation('content', 'content:' + path_skeleton(d[0]), d[:6], case)
    return sh.violations
