"""C01 — Parsing is faithful.

Oracle: expected content computed from the abstract model (pv.am) alone vs the
content read from the Database returned by the real parser (pv.walk), for
several independent surface renderings (pv.surface styles) of the same model.
"""
import random

from pv import am, gen, surface, walk, monitors
from pv.common import parse, skeleton, path_skeleton
from pv.result import Shard, digest

ID = 'C01'
MANIFEST = {
    'text': ('Runs the real parser on ~10k (quick) / ~150k (thorough) generated (document, style) cases and compares the '
             'returned Database, attribute by attribute and in order, with an expectation computed from the abstract '
             'model only; exhaustive inside the per-element feature products, sampled over whole-document structure. '
             'Held means: no disagreement on the executions listed in the evidence.'),
    'note': 'trusts pv/surface.py to write well-formed DBML; trusts CPython/pyparsing; says nothing about inputs outside the generated classes',
    'technique': 'runtime monitoring: model-based differential oracle over generated documents x style vectors (metamorphic across spellings)',
}
LEVEL = 'exploration'
BUDGET = {'quick': 60, 'thorough': 420}
RULE = ('abstract documents (exhaustive per-element products: column flags x default kind x note x inline ref x type; '
        'index shape x options; headers; ref kind x form x action pairs x name x arity; plus seeded random whole '
        'documents) each written by an independent DBML writer in several random style vectors (identifier quoting, '
        'keyword case, blank lines/indentation, string style, settings order and layout, note/index position, ref form, '
        'table addressing) and as an inline->standalone variant; a case = (document, style) and is distinct by the '
        'hash of its text; non-trivial = it has >= 2 element kinds or a non-default setting')
ASSUMPTIONS = [
    'my DBML writer (pv/surface.py) emits only well-formed DBML as described in DESIGN.md 3.0 (one element per line, '
    'singleton declarations at most once, no tab/CR in text)',
    'CPython and pyparsing are trusted',
]
EXHAUSTIVE = {}
STYLES = {'quick': 3, 'thorough': 6}


def plan(tier, seed):
    n = 16
    specs = []
    for i in range(n):
        specs.append({'shard': i, 'of': n})
    return specs


def check_doc(sh, doc, style_seed, knobs=None, label='random', expect=None):
    text = surface.render(doc, style_seed, knobs)
    exp = expect if expect is not None else am.expected(doc)
    feats = gen.features(doc)
    sh.case(text, nontrivial=len(feats) >= 1, sample={'suite': label, 'text': text[:1500]})
    sh.count('obs.docs.' + label)
    for k_ in getattr(doc, 'classes', ()):
        sh.count('obs.class.' + k_)
    db, err = parse(text, allow_properties=doc.allow_properties)
    case = {'kind': 'parse_compare', 'text': text, 'expected': exp,
            'allow_properties': doc.allow_properties}
    if err is not None:
        cls, where = monitors.classify_exc(err)
        sh.violation('parse', f'rejected:{cls}:{skeleton(err)}', f'{cls}: {err}', case,
                     {'suite': label})
        return None
    got = walk.content(db)
    d = am.diff(exp, got)
    if d:
        sh.violation('content', 'content:' + path_skeleton(d[0]), d[:6], case, {'suite': label})
    else:
        sh.count('obs.agree')
    sh.count('obs.tables', len(got['tables']))
    sh.count('obs.columns', sum(len(t['columns']) for t in got['tables']))
    sh.count('obs.refs', len(got['refs']))
    return got


def run_shard(spec, tier, seed, budget_s):
    sh = Shard(ID, budget_s)
    i, n = spec['shard'], spec['of']
    nstyles = STYLES[tier]
    with monitors.ReachMonitor() as reach:
        # ---- exhaustive products, striped over the shards
        prng = random.Random(f'{seed}-products')
        products = []
        for name, fn in (('column', gen.column_product), ('index', gen.index_product),
                         ('header', gen.header_product),
                         ('ref', lambda r: gen.ref_product(r, full_actions=(tier == 'thorough')))):
            for d in fn(prng):
                products.append((name, d))
        for j, (name, doc) in enumerate(products):
            if j % n != i:
                continue
            for s in range(nstyles):
                check_doc(sh, doc, f'{seed}-{j}-{s}', label='product.' + name)
            check_doc(sh, doc, 0, surface.CANON, label='product.' + name)
            sh.count('obs.product_docs')
        # ---- random whole documents
        rng = random.Random(f'{seed}-random-{i}')
        k = 0
        target = {'quick': 60, 'thorough': 2500}[tier]
        while k < target and not sh.out_of_time():
            k += 1
            size = rng.choice(['tiny', 'small', 'small', 'medium'] + (['large'] if tier == 'thorough' else []))
            if k <= 2:
                size = 'large'          # a few big documents in every tier (many tables, references, indexes)
            kwp = rng.random() < 0.15
            doc = gen.random_doc(rng, size, text_profile=rng.choice(['plain', 'rich']),
                                 props=rng.random() < 0.3 and not kwp, flavours=('kwprefix',) if kwp else gen.CORE_FLAVOURS)
            label = 'random.kwprefix' if kwp else 'random'
            if not kwp and rng.random() < 0.2 and gen.same_bare_names(doc, rng):
                label = 'random.samebare'      # equal bare table names in different schemas
                if rng.random() < 0.5:
                    # ... and equal column names in those tables, so that a reference bound to the wrong twin still resolves
                    twins = [t for t in doc.tables if t.name == doc.tables[0].name]
                    ren = {}
                    for t in twins[1:]:
                        for a_, b_ in zip(twins[0].columns, t.columns):
                            ren[(id(t), b_.name)] = a_.name
                    for ti, t in enumerate(doc.tables):
                        for c in t.columns:
                            for r in c.inline_refs:
                                key = (id(doc.tables[r.target]), r.col)
                                r.col = ren.get(key, r.col)
                    for r in doc.refs:
                        r.cols1 = [ren.get((id(doc.tables[r.t1]), c), c) for c in r.cols1]
                        r.cols2 = [ren.get((id(doc.tables[r.t2]), c), c) for c in r.cols2]
                    for t in doc.tables:
                        for ix in t.indexes:
                            ix.subjects = [(k_, ren.get((id(t), v), v) if k_ == 'col' else v) for k_, v in ix.subjects]
                        for c in t.columns:
                            c.name = ren.get((id(t), c.name), c.name)
            if doc.enums and rng.random() < 0.25:
                # name-sake document first: the same column type names, but no enum declares them (plain types);
                # what a name meant in an earlier document must not matter for the next one
                import copy
                da = copy.deepcopy(doc)
                for t in da.tables:
                    for c in t.columns:
                        if c.type.kind == 'enum':
                            e = da.enums[c.type.enum]
                            if am.__dict__['BARE_OK'](e.name) and am.__dict__['BARE_OK'](e.schema):
                                c.type = am.ColType('plain', e.name) if e.schema == 'public' else am.ColType('dotted', f'{e.schema}.{e.name}')
                            else:
                                c.type = am.ColType('quoted', e.name)
                da.enums = []
                da.order = [(k_, i_) for k_, i_ in da.order if k_ != 'e']
                check_doc(sh, da, f'{seed}-{i}-{k}-ns', label='random.namesake')
            exp = am.expected(doc)
            for s in range(nstyles):
                check_doc(sh, doc, f'{seed}-{i}-{k}-{s}', expect=exp, label=label)
            # metamorphic: inline -> standalone
            d2 = gen.inline_to_standalone(doc, rng)
            exp2 = am.expected(d2)
            check_doc(sh, d2, f'{seed}-{i}-{k}-m', label='random.standalone', expect=exp2)
            e1 = [dict(r, inline=False) for r in exp['refs']]
            if e1 != exp2['refs']:
                sh.violation('self', 'harness:inline_to_standalone', 'transform changed the expected refs')
    for k2, v in reach.counts.items():
        if k2.startswith('definitions.') or k2.startswith('parser.'):
            sh.count('reach.' + k2, v)
    return sh


def conclusive(agg, tier):
    c = agg['counters']
    out = []
    for k in ('obs.docs.product.column', 'obs.docs.product.index', 'obs.docs.product.ref',
              'obs.docs.random', 'obs.docs.random.samebare', 'obs.docs.random.kwprefix', 'obs.docs.random.standalone'):
        if not c.get(k):
            out.append(f'sub-suite {k} executed no case')
    return out


def replay(v):
    case = v['case']
    sh = Shard(ID)
    db, err = parse(case['text'], allow_properties=case.get('allow_properties', False))
    if err is not None:
        cls, where = monitors.classify_exc(err)
        sh.violation('parse', f'rejected:{cls}:{skeleton(err)}', f'{cls}: {err}', case)
    else:
        d = am.diff(case['expected'], walk.content(db))
        if d:
            sh.violation('content', 'content:' + path_skeleton(d[0]), d[:6], case)
    return sh.violations
