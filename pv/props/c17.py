"""C17 — Inconsistent models are refused at render time, not rendered as bogus output."""
import random

from pv import am, gen, surface, monitors, apibuild
from pv.common import parse
from pv.result import Shard

ID = 'C17'
MANIFEST = {
    'text': ('Scenario x history x entry-point matrix on random host databases: each required attribute of table / column / enum / '
             'enum item unset (built that way, or parsed / API-built and then set to None), an index never attached or detached '
             'through delete_index, a reference whose column is table-less (never attached, or detached through delete_column), '
             'references whose one side mixes columns of two tables (built so, or edited), composite inline references, '
             'get_refs() on detached tables and columns (never attached, or deleted from the database / table). The operation is '
             'evaluated on the element, through its parent and through db.sql / db.dbml where the statement applies; it must raise '
             'exactly the error class named in the statement.'),
    'note': 'scenario -> class table is written from the property statement; host databases come from pv.gen',
    'technique': 'runtime monitoring: fault enumeration over (scenario, construction history, entry point) with exception-class oracle',
}
LEVEL = 'fault_enumeration'
BUDGET = {'quick': 60, 'thorough': 300}
RULE = ('(host database, scenario, history, entry point); every scenario x history x entry point on every host; distinct by '
        '(host hash, scenario, history, entry); non-trivial = every case (each carries one inconsistency)')
ASSUMPTIONS = ['CPython trusted']

AME, TNF, DBE, UDE = 'AttributeMissingError', 'TableNotFoundError', 'DBMLError', 'UnknownDatabaseError'


def expect(sh, label, want, thunk, case, host):
    sh.case([host, label], nontrivial=True, sample={'scenario': label, 'expect': want})
    sh.count('obs.scenario.' + label.split('|')[0])
    try:
        r = thunk()
    except Exception as e:  # noqa
        got = type(e).__name__
        if got != want:
            sh.violation('class', f'wrong-error:{label}:{got}', f'{label}: raised {got} ({e}), expected {want}', dict(case, scenario=label))
        else:
            sh.count('obs.refused_with_expected_class')
        return
    sh.violation('accept', f'rendered:{label}', f'{label}: returned {str(r)[:120]!r}, expected {want}', dict(case, scenario=label))


def host_db(rng, origin, seed):
    doc = gen.random_doc(rng, rng.choice(['small', 'medium']), 'plain', flavours=('tok',))
    # make sure the host has what the scenarios need
    if not doc.enums:
        doc.enums.append(am.Enum('public', 'ehostq', [am.EnumItem('i1q'), am.EnumItem('i2q')]))
        doc.order.insert(0, ('e', 0))
    if len(doc.tables) < 2:
        doc.tables.append(am.Table('public', 'textraq', columns=[am.Column('xidq', am.ColType('plain', 'int')),
                                                                 am.Column('xid2q', am.ColType('plain', 'int'))]))
        doc.order.append(('t', len(doc.tables) - 1))
    for t in doc.tables:
        if not t.indexes:
            t.indexes.append(am.Index([('col', t.columns[0].name)]))
    if rng.random() < 0.5:
        gen.same_bare_names(doc, rng)       # tables 0 and 1 share their bare name in different schemas
    for t in doc.tables:
        if len(t.columns) < 2:
            t.columns.append(am.Column(f'pad{len(t.columns)}{t.name}', am.ColType('plain', 'int')))
    if origin == 'parsed':
        text = surface.render(doc, seed)
        db, err = parse(text)
        if err is not None:
            return None, None
        return db, text
    return apibuild.build(doc), surface.render(doc, seed, surface.CANON)


def scenarios(sh, rng, mk, hid):
    """mk() -> fresh host database (so that every scenario starts from a consistent model)"""
    from pydbml.classes import Column, Enum, EnumItem, Index, Reference, Table

    def fresh():
        db, text = mk()
        return db, {'kind': 'c17', 'host': text, 'host_id': hid}
    # ---- required attributes -------------------------------------------------------------
    for how in ('set-none', 'built'):
        # table without name
        db, case = fresh()
        if how == 'set-none':
            t = rng.choice(db.tables)
            t.name = None
            expect(sh, f'table-no-name|{how}|table.sql', AME, lambda: t.sql, case, hid)
            expect(sh, f'table-no-name|{how}|db.sql', AME, lambda: db.sql, case, hid)
        else:
            t = Table(None, columns=[Column('a', 'int')])
            expect(sh, f'table-no-name|{how}|table.sql', AME, lambda: t.sql, case, hid)
        # the same for a table flagged abstract (the flag only changes how the body is laid out)
        db, case = fresh()
        if how == 'set-none':
            t = rng.choice(db.tables)
            t.abstract = True
            t.name = None
            expect(sh, f'table-no-name|{how}-abstract|table.sql', AME, lambda: t.sql, case, hid)
            expect(sh, f'table-no-name|{how}-abstract|db.sql', AME, lambda: db.sql, case, hid)
        else:
            t = Table(None, columns=[Column('a', 'int')], abstract=True)
            expect(sh, f'table-no-name|{how}-abstract|table.sql', AME, lambda: t.sql, case, hid)
        # column without name / type
        for attr in ('name', 'type'):
            db, case = fresh()
            if how == 'set-none':
                t = rng.choice(db.tables)
                c = rng.choice(t.columns)
                enumcols = [(t_, c_) for t_ in db.tables for c_ in t_.columns if not isinstance(c_.type, str)]
                if attr == 'name' and enumcols and rng.random() < 0.6:
                    t, c = rng.choice(enumcols)         # an enum-typed column
                    sh.count('class.enum_typed_column_without_name')
                setattr(c, attr, None)
                expect(sh, f'column-no-{attr}|{how}|column.sql', AME, lambda: c.sql, case, hid)
                expect(sh, f'column-no-{attr}|{how}|table.sql', AME, lambda: t.sql, case, hid)
                expect(sh, f'column-no-{attr}|{how}|db.sql', AME, lambda: db.sql, case, hid)
            else:
                c = Column(None, 'int') if attr == 'name' else Column('a', None)
                expect(sh, f'column-no-{attr}|{how}|column.sql', AME, lambda: c.sql, case, hid)
                t = Table('tq', columns=[c])
                expect(sh, f'column-no-{attr}|{how}|table.sql', AME, lambda: t.sql, case, hid)
        # enum without name / schema
        for attr in ('name', 'schema'):
            db, case = fresh()
            if how == 'set-none':
                e = rng.choice(db.enums)
                setattr(e, attr, None)
                expect(sh, f'enum-no-{attr}|{how}|enum.sql', AME, lambda: e.sql, case, hid)
                expect(sh, f'enum-no-{attr}|{how}|db.sql', AME, lambda: db.sql, case, hid)
            else:
                e = Enum(None, ['a']) if attr == 'name' else Enum('eq', ['a'], schema=None)
                expect(sh, f'enum-no-{attr}|{how}|enum.sql', AME, lambda: e.sql, case, hid)
        # enum item without name
        db, case = fresh()
        if how == 'set-none':
            e = rng.choice(db.enums)
            it = rng.choice(e.items)
            it.name = None
            expect(sh, f'enumitem-no-name|{how}|item.sql', AME, lambda: it.sql, case, hid)
            expect(sh, f'enumitem-no-name|{how}|enum.sql', AME, lambda: e.sql, case, hid)
            expect(sh, f'enumitem-no-name|{how}|db.sql', AME, lambda: db.sql, case, hid)
        else:
            it = EnumItem(None)
            expect(sh, f'enumitem-no-name|{how}|item.sql', AME, lambda: it.sql, case, hid)
            e = Enum('eq', [it])
            expect(sh, f'enumitem-no-name|{how}|enum.sql', AME, lambda: e.sql, case, hid)
    # ---- the database rendering was refused for ANOTHER reason first; afterwards a missing attribute is still refused
    db, case = fresh()
    t1, t2 = rng.sample(db.tables, 2)
    cv = Column('victimaq', 'int')
    t1.add_column(cv)
    db.add(Reference('>', cv, t2.columns[0], name='rafterq'))
    t1.delete_column(cv)
    try:
        db.sql
    except Exception:  # noqa
        pass
    try:
        db.dbml
    except Exception:  # noqa
        pass
    tn = rng.choice(db.tables)
    cn = rng.choice(tn.columns)
    cn.name = None
    expect(sh, 'column-no-name|after-refused-db.sql|column.sql', AME, lambda: cn.sql, case, hid)
    tn.name = None
    expect(sh, 'table-no-name|after-refused-db.sql|table.sql', AME, lambda: tn.sql, case, hid)
    if db.enums:
        en = rng.choice(db.enums)
        en.name = None
        expect(sh, 'enum-no-name|after-refused-db.sql|enum.sql', AME, lambda: en.sql, case, hid)
    # ---- a many-to-many reference whose endpoint column lost its type: the join table's column has no type either
    db, case = fresh()
    t1, t2 = rng.sample(db.tables, 2)
    ca, cb = Column('m2maq', 'int'), Column('m2mbq', 'int')
    t1.add_column(ca)
    t2.add_column(cb)
    rm = db.add(Reference('<>', ca, cb, name='rm2mq'))
    side_col = rng.choice([ca, cb])
    side_col.type = None
    expect(sh, 'column-no-type|m2m-endpoint|ref.sql', AME, lambda: rm.sql, case, hid)
    expect(sh, 'column-no-type|m2m-endpoint|join_table.sql', AME, lambda: rm.join_table.sql, case, hid)
    expect(sh, 'column-no-type|m2m-endpoint|db.sql', AME, lambda: db.sql, case, hid)
    # ---- two EQUAL indexes in one table, one of them is deleted: that one is attached to nothing
    db, case = fresh()
    t = rng.choice(db.tables)
    ia, ib = Index([t.columns[0]]), Index([t.columns[0]])
    t.add_index(ia)
    t.add_index(ib)
    victim_ix = rng.choice([ia, ib])
    before_ix = list(t.indexes)
    t.delete_index(victim_ix)
    gone = next(x for x in before_ix if not any(y is x for y in t.indexes))     # (the host may hold a third equal index)
    expect(sh, 'index-detached|delete-one-of-two-equal|index.sql', AME, lambda: gone.sql, case, hid)
    # ---- the table-less endpoint column has the same NAME as a column on the other side
    for kind in ('>', '<', '-', '<>'):
        for inline in (False, True):
            db, case = fresh()
            t1, t2 = rng.sample(db.tables, 2)
            same = t2.columns[0].name
            if any(c_.name == same for c_ in t1.columns):
                continue
            cs = Column(same, 'int')
            t1.add_column(cs)
            first = rng.random() < 0.5       # the detached column is the first or the second endpoint
            rs = db.add(Reference(kind, cs, t2.columns[0], inline=inline, name='rsameq') if first else
                        Reference(kind, t2.columns[0], cs, inline=inline, name='rsameq'))
            t1.delete_column(cs)
            tag = f'{kind}|{"inline" if inline else "plain"}|{"first" if first else "second"}'
            expect(sh, f'ref-tableless-column|same-name-both-sides|ref.sql|{tag}', TNF, lambda: rs.sql, case, hid)
            expect(sh, f'ref-tableless-column|same-name-both-sides|ref.dbml|{tag}', TNF, lambda: rs.dbml, case, hid)
            if not inline or kind == '<>':
                expect(sh, f'ref-tableless-column|same-name-both-sides|db.sql|{tag}', TNF, lambda: db.sql, case, hid)
    # ---- a reference endpoint that is detached AND has no type: still the table-less error ----
    for kind in ('>', '<>'):
        db, case = fresh()
        t1, t2 = rng.sample(db.tables, 2)
        cs = Column(f'typeless{rng.randrange(10**6)}', 'int')
        t1.add_column(cs)
        rs = db.add(Reference(kind, cs, t2.columns[0], name='rtypeless'))
        t1.delete_column(cs)
        cs.type = None
        expect(sh, f'ref-tableless-column|typeless|ref.sql|{kind}', TNF, lambda: rs.sql, case, hid)
        expect(sh, f'ref-tableless-column|typeless|ref.dbml|{kind}', TNF, lambda: rs.dbml, case, hid)
        never = Column(f'never{rng.randrange(10**6)}', None)
        rn = Reference(kind, never, t2.columns[0])
        expect(sh, f'ref-tableless-column|typeless-never-attached|ref.sql|{kind}', TNF, lambda: rn.sql, case, hid)
        expect(sh, f'ref-tableless-column|typeless-never-attached|ref.dbml|{kind}', TNF, lambda: rn.dbml, case, hid)
    # ---- index not attached ---------------------------------------------------------------
    db, case = fresh()
    t = rng.choice(db.tables)
    ix = Index([t.columns[0]])
    expect(sh, 'index-detached|never-attached|index.sql', AME, lambda: ix.sql, case, hid)
    ix2 = t.indexes[0]
    t.delete_index(ix2)
    expect(sh, 'index-detached|delete_index|index.sql', AME, lambda: ix2.sql, case, hid)
    ix3 = Index([t.columns[0]], pk=True)
    expect(sh, 'index-detached|never-attached-pk|index.sql', AME, lambda: ix3.sql, case, hid)
    # an index that add_index refused (it is over another table's column) is still attached to nothing
    other = next(x for x in db.tables if x is not t)
    for pkflag in (False, True):
        ix4 = Index([other.columns[0]], unique=True, pk=pkflag)
        try:
            t.add_index(ix4)
        except Exception:
            pass
        expect(sh, f'index-detached|add_index-refused{"-pk" if pkflag else ""}|index.sql', AME, lambda: ix4.sql, case, hid)
    # ---- reference with a table-less column ---------------------------------------------------
    for kind in ('>', '<', '-', '<>'):
        for inline in (False, True):
            db, case = fresh()
            t1, t2 = rng.sample(db.tables, 2)
            loose = Column('looseq', 'int')
            side = rng.choice([1, 2])
            r = Reference(kind, loose, t2.columns[0], inline=inline) if side == 1 else Reference(kind, t1.columns[0], loose, inline=inline)
            tag = f'{kind}|{"inline" if inline else "plain"}'
            expect(sh, f'ref-tableless-column|never-attached|ref.sql|{tag}', TNF, lambda: r.sql, case, hid)
            expect(sh, f'ref-tableless-column|never-attached|ref.dbml|{tag}', TNF, lambda: r.dbml, case, hid)
            # attached, then the column is removed from its table
            db, case = fresh()
            t1, t2 = rng.sample(db.tables, 2)
            c1 = Column('victimq', 'int')       # a column no reference of the host uses
            t1.add_column(c1)
            r2 = db.add(Reference(kind, c1, t2.columns[0], inline=inline, name='rnewq'))
            t1.delete_column(c1)
            expect(sh, f'ref-tableless-column|delete_column|ref.sql|{tag}', TNF, lambda: r2.sql, case, hid)
            expect(sh, f'ref-tableless-column|delete_column|ref.dbml|{tag}', TNF, lambda: r2.dbml, case, hid)
            if not inline or kind == '<>':
                expect(sh, f'ref-tableless-column|delete_column|db.sql|{tag}', TNF, lambda: db.sql, case, hid)
                expect(sh, f'ref-tableless-column|delete_column|db.dbml|{tag}', TNF, lambda: db.dbml, case, hid)
    # ---- composite reference with a table-less column that is NOT the first one ---------------
    for kind in ('>', '<', '-', '<>'):
        for side in (1, 2):
            db, case = fresh()
            t1, t2 = rng.sample(db.tables, 2)
            v1, v2 = Column('victim1q', 'int'), Column('victim2q', 'int')
            t1.add_column(v1)
            t2.add_column(v2)
            r = db.add(Reference(kind, [t1.columns[0], v1], [t2.columns[0], v2], name='rcompvq'))
            (t1 if side == 1 else t2).delete_column(v1 if side == 1 else v2)
            tag = f'{kind}|side{side}'
            expect(sh, f'ref-tableless-column|composite-later-column|ref.sql|{tag}', TNF, lambda: r.sql, case, hid)
            expect(sh, f'ref-tableless-column|composite-later-column|ref.dbml|{tag}', TNF, lambda: r.dbml, case, hid)
            loose = Column('loose2q', 'int')
            r3 = Reference(kind, [t1.columns[0], loose], [t2.columns[0], t2.columns[1]]) if side == 1 else \
                Reference(kind, [t1.columns[0], t1.columns[1]], [t2.columns[0], loose])
            expect(sh, f'ref-tableless-column|composite-never-attached|ref.sql|{tag}', TNF, lambda: r3.sql, case, hid)
            # a side made of an attached and a table-less column mixes "columns of different tables": asking for the
            # tables is refused, whichever of the two comes first
            expect(sh, f'ref-mixed-side|partly-detached|table{side}|{tag}', DBE, (lambda: r3.table1) if side == 1 else (lambda: r3.table2), case, hid)
            expect(sh, f'ref-mixed-side|partly-detached-after-delete|table{side}|{tag}', DBE, (lambda: r.table1) if side == 1 else (lambda: r.table2), case, hid)
            loose3 = Column('loose3q', 'int')
            r4 = Reference(kind, [loose3, t1.columns[0]], [t2.columns[0], t2.columns[1]]) if side == 1 else \
                Reference(kind, [t1.columns[0], t1.columns[1]], [loose3, t2.columns[0]])
            expect(sh, f'ref-mixed-side|partly-detached-first|table{side}|{tag}', DBE, (lambda: r4.table1) if side == 1 else (lambda: r4.table2), case, hid)
            expect(sh, f'ref-tableless-column|composite-first-never-attached|ref.sql|{tag}', TNF, lambda: r4.sql, case, hid)
    # ---- a consistent reference that becomes mixed because a column is MOVED to another table -----
    for kind in ('>', '<', '-', '<>'):
        for side in (1, 2):
            db, case = fresh()
            t1, t2 = rng.sample(db.tables, 2)
            others = [t for t in db.tables if t is not t1 and t is not t2] or [Table('elsewhereq', columns=[Column('eq', 'int')])]
            v1, v2 = Column('mover1q', 'int'), Column('mover2q', 'int')
            t1.add_column(v1)
            t2.add_column(v2)
            r = db.add(Reference(kind, [t1.columns[0], v1], [t2.columns[0], v2], name='rmoveq'))
            # use it while it is consistent (anything the library may want to remember is remembered now)
            r.table1, r.table2, r.dbml, r.sql, t1.get_refs()
            mv, src = (v1, t1) if side == 1 else (v2, t2)
            src.delete_column(mv)
            others[0].add_column(mv)
            tag = f'{kind}|side{side}|moved'
            expect(sh, f'ref-mixed-side|table{side}|{tag}', DBE, (lambda: r.table1) if side == 1 else (lambda: r.table2), case, hid)
            expect(sh, f'ref-mixed-side|ref.dbml|{tag}', DBE, lambda: r.dbml, case, hid)
    # ---- mixed sides -------------------------------------------------------------------------
    for kind in ('>', '<', '-', '<>'):
        for side in (1, 2):
            for how in ('built', 'edited'):
                db, case = fresh()
                t1, t2 = rng.sample(db.tables, 2)
                twins = [t for t in db.tables if t.name == db.tables[0].name]
                if len(twins) >= 2 and rng.random() < 0.6:
                    t1, t2 = twins[0], twins[1]        # same bare name, different schema
                    sh.count('class.mixed_side_between_same_named_tables')
                a, b = [t1.columns[0], t1.columns[1]], [t2.columns[0], t2.columns[1]]
                if how == 'built':
                    mixed = [t1.columns[0], t2.columns[1]]
                    r = Reference(kind, mixed, b) if side == 1 else Reference(kind, a, mixed)
                else:
                    r = db.add(Reference(kind, a, b, name='rmixq'))
                    if side == 1:
                        r.col1 = [t1.columns[0], t2.columns[1]]
                    else:
                        r.col2 = [t2.columns[0], t1.columns[1]]
                tag = f'{kind}|side{side}|{how}'
                expect(sh, f'ref-mixed-side|table{side}|{tag}', DBE, (lambda: r.table1) if side == 1 else (lambda: r.table2), case, hid)
                # asking for the table of the OTHER (consistent) side is refused as well: the reference as a whole is inconsistent
                expect(sh, f'ref-mixed-side|other-table|{tag}', DBE, (lambda: r.table2) if side == 1 else (lambda: r.table1), case, hid)
                expect(sh, f'ref-mixed-side|ref.dbml|{tag}', DBE, lambda: r.dbml, case, hid)
                if kind == '<>':
                    expect(sh, f'ref-mixed-side|join_table|{tag}', DBE, lambda: r.join_table, case, hid)
                if how == 'edited':
                    expect(sh, f'ref-mixed-side|db.dbml|{tag}', DBE, lambda: db.dbml, case, hid)
    # ---- composite inline --------------------------------------------------------------------
    for kind in ('>', '<', '-'):
        db, case = fresh()
        t1, t2 = rng.sample(db.tables, 2)
        r = db.add(Reference(kind, [t1.columns[0], t1.columns[1]], [t2.columns[0], t2.columns[1]], inline=True))
        expect(sh, f'composite-inline|ref.dbml|{kind}', DBE, lambda: r.dbml, case, hid)
        expect(sh, f'composite-inline|db.dbml|{kind}', DBE, lambda: db.dbml, case, hid)
        db, case = fresh()
        t1, t2 = rng.sample(db.tables, 2)
        r = db.add(Reference(kind, [t1.columns[0], t1.columns[1]], [t2.columns[0], t2.columns[1]], name='rcompq'))
        r.inline = True
        expect(sh, f'composite-inline|edited|ref.dbml|{kind}', DBE, lambda: r.dbml, case, hid)
    # ---- get_refs on detached objects ---------------------------------------------------------
    db, case = fresh()
    t = Table('lonelyq', columns=[Column('a', 'int')])
    expect(sh, 'get_refs|table-never-attached', UDE, lambda: t.get_refs(), case, hid)
    c = Column('b', 'int')
    expect(sh, 'get_refs|column-never-attached', TNF, lambda: c.get_refs(), case, hid)
    t2 = rng.choice(db.tables)
    db.delete(t2)
    expect(sh, 'get_refs|table-deleted-from-db', UDE, lambda: t2.get_refs(), case, hid)
    # deleted by handing in an EQUAL table of another database: the table that left the list is the detached one
    db, case = fresh()
    dbtwin, _ = mk()
    k = rng.randrange(len(db.tables))
    real, twin = db.tables[k], dbtwin.tables[k]
    if real == twin and db.tables.index(twin) == k:
        db.delete(twin)
        if not any(x is real for x in db.tables):
            sh.count('class.deleted_via_equal_copy')
            expect(sh, 'get_refs|table-deleted-via-equal-copy', UDE, lambda: real.get_refs(), case, hid)
            expect(sh, 'get_refs|column-of-table-deleted-via-equal-copy', UDE, lambda: real.columns[0].get_refs(), case, hid)
            # the twin still belongs to its own, untouched database
            try:
                twin.get_refs(), twin.sql
            except Exception as e:  # noqa
                sh.violation('refuse', 'raised-on-consistent:twin-after-delete-by-equality', f'{type(e).__name__}: {e}', case, {'host': hid})
    db, case = fresh()
    t3 = rng.choice(db.tables)
    c3 = t3.columns[0]
    t3.delete_column(c3)
    expect(sh, 'get_refs|column-deleted-from-table', TNF, lambda: c3.get_refs(), case, hid)
    expect(sh, 'get_refs|column-of-detached-table', UDE, lambda: t.columns[0].get_refs(), case, hid)


def plan(tier, seed):
    return [{'shard': i, 'of': 16} for i in range(16)]


def run_shard(spec, tier, seed, budget_s):
    sh = Shard(ID, budget_s)
    i = spec['shard']
    rng = random.Random(f'{seed}-c17-{i}')
    k = 0
    target = {'quick': 8, 'thorough': 160}[tier]
    while k < target and not sh.out_of_time():
        k += 1
        origin = 'parsed' if k % 2 else 'api'
        st = rng.getstate()
        hseed = f'{seed}-{i}-{k}'

        def mk():
            r2 = random.Random(hseed)
            return host_db(r2, origin, hseed)
        db, text = mk()
        if db is None:
            sh.count('obs.host_rejected')
            continue
        sh.count('obs.hosts.' + origin)
        try:
            scenarios(sh, random.Random(hseed + '-scenarios'), mk, hseed + '|' + origin)
        except Exception as e:  # noqa
            if not monitors.is_library_error(e):
                raise
            # the set-up of a scenario collided with what the host already contains (e.g. the reference it wants to add is
            # there already); refusals under test are caught inside expect(), so this is never a verdict about the library
            sh.count('obs.scenario_setup_collided_with_host.' + type(e).__name__)
    return sh


def conclusive(agg, tier):
    c = agg['counters']
    need = ['table-no-name', 'column-no-name', 'column-no-type', 'enum-no-name', 'enum-no-schema', 'enumitem-no-name', 'index-detached',
            'ref-tableless-column', 'ref-mixed-side', 'composite-inline', 'get_refs']
    out = [f'scenario {s} never evaluated' for s in need if not c.get('obs.scenario.' + s)]
    for o in ('parsed', 'api'):
        if not c.get('obs.hosts.' + o):
            out.append(f'no {o} host')
    return out


def replay(v):
    """re-runs every scenario on the witness' host database and reports the ones of the same class"""
    sh = Shard(ID)
    hid = (v.get('case') or {}).get('host_id')
    if not hid:
        return [dict(v)]
    hseed, origin = hid.split('|')

    def mk():
        return host_db(random.Random(hseed), origin, hseed)
    scenarios(sh, random.Random(hseed + '-scenarios'), mk, hid)
    return [x for x in sh.violations if x['klass'] == v.get('klass')] or sh.violations[:0]
