"""C12 — All documented ways of supplying the source give the same database."""
import io
import os
import random
import re
import tempfile
from pathlib import Path

from pv import am, gen, surface, walk, monitors
from pv.result import Shard

ID = 'C12'
MANIFEST = {
    'text': ('For generated documents (incl. non-ASCII names and notes, with and without arbitrary properties) feeds the same '
             'text through every documented route - PyDBML(str), PyDBML(Path), PyDBML(open text file), PyDBML.parse, '
             'PyDBML().parse, PyDBML.parse_file(str | Path | open file) also via an instance - each with and without a leading '
             'byte-order mark (in the string, and in the file as written by utf-8-sig), and compares content and renderings with '
             'the PyDBML.parse(text) result; checks that option-accepting routes honour allow_properties and the renderer '
             'classes identically (recording renderer subclasses), and that bytes, int, list, StringIO, a binary file and a '
             'BytesIO are refused with TypeError.'),
    'note': 'files are written to a run-private temporary directory that is removed; None as source returns the factory instance by design and is excluded',
    'technique': 'runtime monitoring: cross-route differential over every entry point x BOM x options',
}
LEVEL = 'exploration'
BUDGET = {'quick': 60, 'thorough': 300}
RULE = ('(document, route, BOM?, option set); a case = one document pushed through all routes and configurations; distinct by '
        'text hash; non-trivial = the document has at least two elements')
ASSUMPTIONS = ['CPython file I/O trusted']


def routes(text, tmpdir, tag, bom, crlf=False):
    """-> list of (route name, accepts options, thunk(kwargs) -> database).  With crlf=True the FILE is written with
    CRLF line ends (text mode reading translates them back, so every file route must still see `text`)"""
    from pydbml import PyDBML
    p = os.path.join(tmpdir, f'{tag}.dbml')
    with open(p, 'w', encoding='utf-8-sig' if bom else 'utf8', newline='') as f:
        f.write(text.replace('\n', '\r\n') if crlf else text)
    s = ('﻿' + text) if bom else text

    def with_file(fn):
        def run(**kw):
            with open(p, encoding='utf8') as fh:
                return fn(fh, **kw)
        return run
    extra = []
    if not bom and not crlf:
        # the same text in a file of another encoding, opened by the caller with that encoding: an open text file is
        # whatever its read() returns
        for enc in ('utf-16', 'latin-1', 'cp1252', 'utf-8-sig'):
            try:
                data = text.encode(enc)
                if data.decode(enc) != text:
                    continue
            except UnicodeError:
                continue
            pe = os.path.join(tmpdir, f'{tag}.{enc}.dbml')
            with open(pe, 'wb') as f:
                f.write(data)

            def with_enc(fn, pe=pe, enc=enc):
                def run(**kw):
                    with open(pe, encoding=enc, newline='') as fh:
                        return fn(fh, **kw)
                return run
            extra.append((f'PyDBML(file:{enc})', True, with_enc(lambda fh, **kw: PyDBML(fh, **kw))))
            extra.append((f'parse_file(file:{enc})', False, with_enc(lambda fh, **kw: PyDBML.parse_file(fh))))
    if not bom and not crlf:
        # an open text stream that cannot seek (a pipe): still an open text file whose read() gives the text
        def with_pipe(fn):
            def run(**kw):
                import threading
                r_, w_ = os.pipe()

                def feed():
                    with os.fdopen(w_, 'w', encoding='utf8', newline='') as wf:
                        wf.write(text)
                th = threading.Thread(target=feed)
                th.start()
                try:
                    with os.fdopen(r_, 'r', encoding='utf8', newline='') as rf:
                        return fn(rf, **kw)
                finally:
                    th.join(10)
            return run
        def with_mode(fn, mode):
            def run(**kw):
                import tempfile
                if mode == 'tmp':
                    fh = tempfile.TemporaryFile('w+', encoding='utf8', newline='', dir=tmpdir)
                else:
                    pm = os.path.join(tmpdir, f'{tag}.{mode.replace("+", "p")}.dbml')
                    if mode == 'r+':
                        with open(pm, 'w', encoding='utf8', newline='') as f0:
                            f0.write(text)
                    elif os.path.exists(pm):
                        os.unlink(pm)           # (a+ would append to what an earlier call left behind)
                    fh = open(pm, mode, encoding='utf8', newline='')
                with fh:
                    if mode != 'r+':
                        fh.write(text)
                        fh.seek(0)
                    return fn(fh, **kw)
            return run
        for mode in ('r+', 'w+', 'a+', 'tmp'):
            extra.append((f'PyDBML(file:mode-{mode})', True, with_mode(lambda fh, **kw: PyDBML(fh, **kw), mode)))
            extra.append((f'parse_file(file:mode-{mode})', False, with_mode(lambda fh, **kw: PyDBML.parse_file(fh), mode)))
        extra.append(('PyDBML(file:pipe)', True, with_pipe(lambda fh, **kw: PyDBML(fh, **kw))))
        extra.append(('parse_file(file:pipe)', False, with_pipe(lambda fh, **kw: PyDBML.parse_file(fh))))
        # options passed by position (documented order: source, allow_properties, sql_renderer, dbml_renderer)
        def positional(call):
            def run(**kw):
                if not kw:
                    return call()
                from pydbml.renderer.sql.default import DefaultSQLRenderer
                from pydbml.renderer.dbml.default import DefaultDBMLRenderer
                args = [kw.get('allow_properties', False)]
                if 'sql_renderer' in kw:
                    args += [kw['sql_renderer'], kw.get('dbml_renderer', DefaultDBMLRenderer)]
                return call(*args)
            return run
        extra.append(('PyDBML(str)', True, positional(lambda *a: PyDBML(s, *a))))
        extra.append(('PyDBML.parse', True, positional(lambda *a: PyDBML.parse(s, *a))))
        extra.append(('PyDBML().parse', True, positional(lambda *a: PyDBML().parse(s, *a))))
    return extra + [
        ('PyDBML(str)', True, lambda **kw: PyDBML(s, **kw)),
        ('PyDBML(Path)', True, lambda **kw: PyDBML(Path(p), **kw)),
        ('PyDBML(file)', True, with_file(lambda fh, **kw: PyDBML(fh, **kw))),
        ('PyDBML.parse', True, lambda **kw: PyDBML.parse(s, **kw)),
        ('PyDBML().parse', True, lambda **kw: PyDBML().parse(s, **kw)),
        ('parse_file(str)', False, lambda **kw: PyDBML.parse_file(p)),
        ('parse_file(Path)', False, lambda **kw: PyDBML.parse_file(Path(p))),
        ('parse_file(file)', False, with_file(lambda fh, **kw: PyDBML.parse_file(fh))),
        ('PyDBML().parse_file(str)', False, lambda **kw: PyDBML().parse_file(p)),
    ]


def outcome(thunk, kw):
    try:
        db = thunk(**kw)
    except Exception as e:  # noqa
        return ('EXC', type(e).__name__), None
    try:
        return ('OK', walk.content(db), db.dbml, db.sql), db
    except Exception as e:  # noqa
        return ('RENDER-EXC', type(e).__name__), db


def plan(tier, seed):
    return [{'shard': i, 'of': 16} for i in range(16)]


def run_shard(spec, tier, seed, budget_s):
    from pydbml import PyDBML
    from pydbml.renderer.sql.default import DefaultSQLRenderer
    from pydbml.renderer.dbml.default import DefaultDBMLRenderer
    sh = Shard(ID, budget_s)
    i = spec['shard']
    rng = random.Random(f'{seed}-c12-{i}')
    calls = {'sql': 0, 'dbml': 0}

    class RecSQL(DefaultSQLRenderer):
        @classmethod
        def render_db(cls, db):
            calls['sql'] += 1
            return '-- recorded\n' + super().render_db(db)

    class RecDBML(DefaultDBMLRenderer):
        @classmethod
        def render_db(cls, db):
            calls['dbml'] += 1
            return '// recorded\n' + super().render_db(db)
    tmpdir = tempfile.mkdtemp(prefix='pv-c12-', dir=os.environ.get('PV_SCRATCH') or None)
    try:
        k = 0
        target = {'quick': 10, 'thorough': 320}[tier]
        while k < target and not sh.out_of_time():
            k += 1
            props = rng.random() < 0.5
            doc = gen.random_doc(rng, rng.choice(['tiny', 'small', 'small']), rng.choice(['plain', 'rich']),
                                 flavours=('bare', 'unicode', 'space', 'unicode'), props=props)
            # non-NFC text: combining marks and compatibility singletons must reach the model untouched on every route
            for t in doc.tables:
                if rng.random() < 0.5:
                    t.note = (t.note or 'n') + rng.choice([' e\u0301', ' \u2126', ' A\u030a', ' \u212b \u212a', ' o\u0308\u0304'])
            for st in doc.stickies:
                st.name = st.name + rng.choice(['', 'e\u0301', '\u2126'])
                # characters that only a careless source normalisation would touch: an interior U+FEFF, Unicode line separators
                st.text = st.text + rng.choice(['', ' zw\ufeffnbsp', ' ls\u2028x', ' nel\x85x', ' ff\x0cx', ' ps\u2029x'])
            if doc.project is not None:
                doc.project.name = doc.project.name + rng.choice(['', 'A\u030a', '\u212a'])
            text = surface.render(doc, f'{seed}-{i}-{k}')
            if rng.random() < 0.3:
                # the whole document indented (every non-blank line): all routes still see the same text
                ind = ' ' * rng.choice([1, 2, 4])
                text = '\n'.join((ind + ln) if ln.strip() else ln for ln in text.split('\n'))
                sh.count('obs.docs.indented')
            if rng.random() < 0.1:
                text = ''    # empty document through every route
            nel = len(doc.tables) + len(doc.enums) + len(doc.refs)
            sh.case(text, nontrivial=nel > 1, sample={'text': text[:400], 'props': props})
            for optname, kw in (('default', {}), ('props', {'allow_properties': True}),
                                ('renderers', {'sql_renderer': RecSQL, 'dbml_renderer': RecDBML}),
                                ('all', {'allow_properties': True, 'sql_renderer': RecSQL, 'dbml_renderer': RecDBML})):
                ref, refdb = outcome(lambda **kw2: PyDBML.parse(text, **kw2), kw)
                ref0, _ = outcome(lambda **kw2: PyDBML.parse(text), {})
                for bom, crlf in ((False, False), (True, False), (False, True), (True, True)):
                    for name, takes, thunk in routes(text, tmpdir, f'd{k}', bom, crlf):
                        if not takes and kw and (bom or crlf or ':' in name):
                            continue        # (option-less routes are repeated after option-carrying calls in one layout only)
                        if crlf and ('str' in name.split('(')[-1] and 'parse_file' not in name or name in ('PyDBML.parse', 'PyDBML().parse')):
                            continue          # string routes do not read the file
                        if crlf:
                            sh.count('obs.crlf_file_routes')
                        want = ref if takes else ref0
                        got, db = outcome(thunk, kw if takes else {})
                        sh.count(f'obs.route.{name.split(":")[0] + (")" if ":" in name else "")}.{"bom" if bom else "nobom"}')
                        if ':' in name:
                            sh.count('obs.encoding.' + name.split(':')[1].rstrip(')'))
                        sh.count('obs.comparisons')
                        case = {'kind': 'route', 'text': text, 'route': name, 'bom': bom, 'options': optname}
                        if db is not None and got == want and not kw and not bom and not crlf:
                            # the caller edits what it got; the same route, asked again, gives a new database with the source's content
                            try:
                                for t_ in db.tables[:1]:
                                    t_.name = 'EDITEDq'
                                    t_.columns[0].name = 'EDITEDcq'
                                for e_ in db.enums[:1]:
                                    e_.name = 'EDITEDeq'
                                from pydbml.classes import StickyNote as _SN
                                db.add(_SN('EDITEDsq', 'edited'))
                            except Exception:
                                pass
                            got2, db2 = outcome(thunk, {})
                            sh.count('obs.repeat_after_edit')
                            if db2 is db:
                                sh.violation('route', f'repeat-returns-same-object:{name.split(":")[0]}', f'{name}: the second call returned the very database object of the first', case)
                            elif got2 != want:
                                sh.violation('route', f'repeat-after-edit-differs:{name.split(":")[0]}', f'{name}: second call after editing the first result: ' +
                                             ('; '.join(am.diff(want[1], got2[1])[:3]) if got2[0] == 'OK' == want[0] else f'{got2[:2]} vs {want[:2]}'), case)
                        if got != want:
                            if got[0] != want[0]:
                                detail = f'{got[:2] if got[0] != "OK" else "OK"} vs reference {want[:2] if want[0] != "OK" else "OK"}'
                            else:
                                detail = '; '.join(am.diff(want[1], got[1])[:3]) or 'renderings differ'
                            sh.violation('route', f'route-differs:{name}:{"bom" if bom else "nobom"}:{optname}',
                                         f'{name} bom={bom} options={optname}: {detail}', case)
                        elif db is not None and takes and kw:
                            if 'allow_properties' in kw and db.allow_properties is not True:
                                sh.violation('option', f'option-lost:allow_properties:{name}', f'{name}: db.allow_properties={db.allow_properties}', case)
                            if 'sql_renderer' in kw and (db.sql_renderer is not RecSQL or db.dbml_renderer is not RecDBML
                                                         or not db.sql.startswith('-- recorded') or not db.dbml.startswith('// recorded')):
                                sh.violation('option', f'option-lost:renderers:{name}', f'{name}: renderer classes not in effect', case)
            # ---- a one-line text that happens to name an existing file is still text
            if k % 3 == 0 and not sh.out_of_time():
                pf = os.path.join(tmpdir, f'named{k}.dbml')
                with open(pf, 'w', encoding='utf8') as f:
                    f.write('Table from_file {\n  id int\n}\n')
                for tline in ('/' + pf, '// ' + pf, pf.replace(tmpdir, '//' + tmpdir.lstrip('/'))):     # `//tmp/...` is a comment AND a path
                    want_t, _ = outcome(lambda **kw: PyDBML.parse(tline), {})
                    for name, call in (('PyDBML(str)', lambda: PyDBML(tline)), ('PyDBML().parse', lambda: PyDBML().parse(tline))):
                        got_t, _ = outcome(lambda **kw: call(), {})
                        sh.count('obs.text_that_names_a_file')
                        if got_t != want_t:
                            sh.violation('route', f'route-differs:{name}:text-names-a-file', f'{name}: the one-line text {tline!r} is not treated as text',
                                         {'kind': 'route', 'text': tline, 'route': name, 'bom': False, 'options': 'default'})
            # ---- two byte order marks: only the first one is a mark, and every route agrees on that
            if not sh.out_of_time():
                dbl = '\ufeff\ufeff' + text
                want_d, _ = outcome(lambda **kw: PyDBML.parse(dbl), {})
                for name, takes, thunk in routes(dbl, tmpdir, f'dbl{k}', False):
                    if ':' in name:
                        continue
                    got_d, _ = outcome(thunk, {})
                    sh.count('obs.double_bom_routes')
                    if got_d != want_d:
                        sh.violation('route', f'route-differs:{name}:double-bom', f'{name}: text starting with two U+FEFF: {got_d[:2] if got_d[0] != "OK" else "OK"} vs PyDBML.parse {want_d[:2] if want_d[0] != "OK" else "OK"}',
                                     {'kind': 'route', 'text': dbl, 'route': name, 'bom': False, 'options': 'default'})
            # ---- an open file the caller has already read from: every open-file route parses what is left
            nl = text.find('\n', len(text) // 3)
            if nl > 0 and not sh.out_of_time():
                pth2 = os.path.join(tmpdir, f'part{k}.dbml')
                with open(pth2, 'w', encoding='utf8', newline='') as f:
                    f.write(text)
                rest = text[nl + 1:]
                want_rest, _ = outcome(lambda **kw: PyDBML.parse(rest), {})
                for name, fn in (('PyDBML(file)', lambda fh: PyDBML(fh)), ('parse_file(file)', lambda fh: PyDBML.parse_file(fh)),
                                 ('PyDBML().parse_file(file)', lambda fh: PyDBML().parse_file(fh))):
                    with open(pth2, encoding='utf8', newline='') as fh:
                        head_ = fh.read(nl + 1)
                        got_rest, _ = outcome(lambda **kw: fn(fh), {})
                    sh.count('obs.partially_read_files')
                    if head_ == text[:nl + 1] and got_rest != want_rest:
                        sh.violation('route', f'partially-read-file:{name}', f'{name}: a handle positioned after the first {nl + 1} characters does not give the database of the remaining text',
                                     {'kind': 'partial', 'text': text, 'route': name, 'offset': nl + 1})
            # ---- the file changes between two calls (same path, same size, same time stamp): the second call reads it again
            m_ = None
            for m_ in re.finditer(r'\d', text):
                pass
            if m_ is not None and not sh.out_of_time():
                text2 = text[:m_.start()] + str((int(m_.group()) + 1) % 10) + text[m_.end():]
                pth = os.path.join(tmpdir, f'rw{k}.dbml')
                with open(pth, 'w', encoding='utf8', newline='') as f:
                    f.write(text)
                st = os.stat(pth)
                path_routes = [('PyDBML(Path)', lambda: PyDBML(Path(pth))), ('parse_file(str)', lambda: PyDBML.parse_file(pth)),
                               ('parse_file(Path)', lambda: PyDBML.parse_file(Path(pth))), ('PyDBML().parse_file(str)', lambda: PyDBML().parse_file(pth))]
                first = [outcome(lambda **kw: th(), {})[0] for _, th in path_routes]
                with open(pth, 'w', encoding='utf8', newline='') as f:
                    f.write(text2)
                os.utime(pth, ns=(st.st_atime_ns, st.st_mtime_ns))
                want2, _ = outcome(lambda **kw: PyDBML.parse(text2), {})
                for (name, th), g1 in zip(path_routes, first):
                    got2, _ = outcome(lambda **kw: th(), {})
                    sh.count('obs.rewritten_file_reads')
                    if got2 != want2:
                        sh.violation('route', f'stale-file-content:{name}', f'{name}: after the file was rewritten (same size and time stamp) the route ' +
                                     ('still returns the old content' if got2 == g1 else 'returns neither the old nor the new content'),
                                     {'kind': 'rewrite', 'text': text, 'text2': text2, 'route': name})
        # refused source types
        bp = os.path.join(tmpdir, 'bin.dbml')
        with open(bp, 'w') as f:
            f.write('Table t {\n a int\n}\n')
        for label, mk in (('bytes', lambda: b'Table t {\n a int\n}'), ('int', lambda: 5), ('list', lambda: ['Table t {']),
                          ('StringIO', lambda: io.StringIO('Table t {\n a int\n}')), ('BytesIO', lambda: io.BytesIO(b'x')),
                          ('binary file', lambda: open(bp, 'rb')), ('float', lambda: 1.5), ('dict', lambda: {}), ('tuple', lambda: ('a',))):
            src = mk()
            try:
                r = PyDBML(src)
                sh.violation('type', f'source-type-accepted:{label}', f'PyDBML({label}) returned {type(r).__name__}', {'kind': 'type', 'label': label})
            except TypeError:
                sh.count('obs.refused_with_TypeError')
            except Exception as e:  # noqa
                sh.violation('type', f'source-type-wrong-error:{label}:{type(e).__name__}', f'PyDBML({label}) raised {type(e).__name__}: {e}', {'kind': 'type', 'label': label})
            finally:
                if hasattr(src, 'close'):
                    src.close()
            sh.evaluations += 1
        sh.count('obs.recording_renderer_calls', calls['sql'] + calls['dbml'])
    finally:
        import shutil
        shutil.rmtree(tmpdir, ignore_errors=True)
    return sh


def conclusive(agg, tier):
    c = agg['counters']
    out = []
    for r in ('PyDBML(str)', 'PyDBML(Path)', 'PyDBML(file)', 'PyDBML.parse', 'PyDBML().parse', 'parse_file(str)',
              'parse_file(Path)', 'parse_file(file)', 'PyDBML().parse_file(str)'):
        for b in ('bom', 'nobom'):
            if not c.get(f'obs.route.{r}.{b}'):
                out.append(f'route {r} ({b}) never exercised')
    if not c.get('obs.crlf_file_routes'):
        out.append('CRLF files never exercised')
    if not c.get('obs.refused_with_TypeError') or not c.get('obs.recording_renderer_calls'):
        out.append('type refusal or recording renderers never observed')
    return out


def replay(v):
    sh = Shard(ID)
    case = v['case']
    if case.get('kind') != 'route':
        return [dict(v)]
    from pydbml import PyDBML
    tmpdir = tempfile.mkdtemp(prefix='pv-c12-')
    try:
        ref, _ = outcome(lambda **kw: PyDBML.parse(case['text']), {})
        for name, takes, thunk in routes(case['text'], tmpdir, 'r', case['bom']):
            if name == case['route']:
                got, _ = outcome(thunk, {})
                if got != ref:
                    sh.violation('route', v['klass'], f'{name} bom={case["bom"]} still differs from PyDBML.parse (default options)', case)
    finally:
        import shutil
        shutil.rmtree(tmpdir, ignore_errors=True)
    return sh.violations
