"""C04 — Every relationship becomes exactly one correctly directed FOREIGN KEY in SQL."""
import random

from pv import am, gen, monitors
from pv.props import c03
from pv.result import Shard

ID = 'C04'
MANIFEST = {
    'text': ('Reads db.sql back with the independent DDL reader and matches every reference of the abstract model 1-1 against '
             'the FOREIGN KEY clauses found: holder table and column order per kind (> - on the left table, < on the right), '
             'CONSTRAINT name, ON UPDATE / ON DELETE, inline clause inside CREATE TABLE xor ALTER TABLE, and for <> the join '
             'table (name, schema, NOT NULL typed columns, primary key over all, two ALTERs). All 4 kinds x short/block x '
             'action pairs x named x arity 1-3 x self/cross-table/cross-schema; API-built origin adds inline composite / '
             'named / actioned references that DBML text cannot express.'),
    'note': 'unique name tokens make the reference <-> clause match unambiguous; at most one <> per ordered table pair (the statement fixes the join table name); trusts pv/sqlread.py, pv/expect_sql.py',
    'technique': 'runtime monitoring: offline checker over recorded output (independent DDL reader) vs model-derived expectation',
}
LEVEL = 'exploration'
BUDGET = {'quick': 60, 'thorough': 400}
RULE = ('databases from the reference product (4 kinds x 2 forms x update/delete action pairs [banded in quick, all 36 in '
        'thorough] x {unnamed, bare name, quoted name} x arity 1..3, 6 references per document over 3 tables with random '
        'schemas/aliases) and seeded random whole documents with 0-12 mixed references; parsed origin and API-built origin '
        '(the latter with 40% of standalone references flagged inline); distinct by hash of the SQL; non-trivial = has >= 1 reference')
ASSUMPTIONS = ['DDL-safe names; at most one <> reference per ordered table pair', 'CPython/pyparsing trusted']
PARTS = ('fk', 'alter', 'join', 'extra', 'table')


def check(sh, doc, db, origin, suite, parts, api=False, text=None):
    rd = c03.check_sql(sh, doc, db, origin, suite, parts, api=api, text=text)
    for how, idx, col, r in am.ref_order(doc):
        inline = how == 'inline' or (api and r.api_inline and r.kind != '<>')
        ar = 1 if how == 'inline' else len(r.cols1)
        sh.count(f'class.ref.{r.kind}.{"inline" if inline else "alter"}.arity{min(ar, 3)}')
        if how != 'inline':
            if r.t1 == r.t2:
                sh.count('class.ref.self')
            if doc.tables[r.t1].schema != doc.tables[r.t2].schema:
                sh.count('class.ref.cross_schema')
            if r.name:
                sh.count('class.ref.named')
            if r.on_update or r.on_delete:
                sh.count('class.ref.actions')


def edit_refs_and_recheck(sh, doc, rng, seed):
    """render once, change kind / inline-ness / name / actions of references in place (same edit on a copy of the
    abstract document), render again: every reference must again be rendered exactly once, for its NEW kind"""
    import copy
    from pv import apibuild
    d2 = copy.deepcopy(doc)
    db = apibuild.build(d2, api_inline=True)
    try:
        db.sql
    except Exception:
        return
    order = am.ref_order(d2)
    if len(order) != len(db.refs):
        return
    m2m = {(d2.tables[r.t1].schema, d2.tables[r.t1].name, d2.tables[r.t2].name) for how, i_, c_, r in order if how != 'inline' and r.kind == '<>'}
    n = 0
    # a standalone reference over the same endpoints as an inline one is given the inline one's kind: from now on the two
    # compare equal (equality ignores inline-ness), and they are still two relationships, each with its own foreign key
    pairs = list(zip(db.refs, order))
    made_equal = set()
    for Ra, (how_a, idx_a, col_a, ra) in pairs:
        if how_a != 'inline':
            continue
        for Rb, (how_b, idx_b, col_b, rb) in pairs:
            if how_b == 'inline' or rb.kind == '<>' or len(Rb.col1) != 1 or id(rb) in made_equal:
                continue
            if Rb.col1[0] is Ra.col1[0] and Rb.col2[0] is Ra.col2[0] and Rb.type != Ra.type and rng.random() < 0.7:
                rb.kind = ra.kind
                Rb.type = Ra.type
                made_equal.add(id(rb))
                n += 1
                sh.count('obs.references_made_equal_by_edit')
    for R, (how, idx, col, r) in zip(db.refs, order):
        if how == 'inline' or rng.random() > 0.5 or id(r) in made_equal:
            continue
        what = rng.choice(['kind', 'kind', 'inline', 'name', 'actions', 'repoint', 'repoint'])
        if what == 'repoint':
            # the first endpoint is assigned anew (ref.col1 = [a column of a third table]): from now on THAT table is involved
            third = [ti_ for ti_ in range(len(d2.tables)) if ti_ not in (r.t1, r.t2) and ('t', ti_) in d2.order]
            if r.kind == '<>' or len(r.cols1) != 1 or not third:
                continue
            t3 = rng.choice(third)
            c3 = rng.choice(d2.tables[t3].columns).name
            if any(q is not r and {(q.t1, tuple(q.cols1)), (q.t2, tuple(q.cols2))} == {(t3, (c3,)), (r.t2, tuple(r.cols2))} for q in d2.refs):
                continue
            r.t1, r.cols1 = t3, [c3]
            order_t_ = [i_ for k_, i_ in d2.order if k_ == 't']
            R.col1 = [db.tables[order_t_.index(t3)][c3]]
            sh.count('obs.endpoint_reassigned')
        elif what == 'kind':
            new = rng.choice(['>', '<', '-', '<>'])
            key = (d2.tables[r.t1].schema, d2.tables[r.t1].name, d2.tables[r.t2].name)
            if new == '<>' and key in m2m:
                continue
            if new == '<>':
                m2m.add(key)
            r.kind = new
            R.type = new
        elif what == 'inline':
            r.api_inline = not r.api_inline
            R.inline = r.api_inline
        elif what == 'name':
            r.name = None if r.name else f'renamed{n}'
            R.name = r.name
        else:
            r.on_update = rng.choice([None, 'cascade', 'set null'])
            r.on_delete = r.on_update if rng.random() < 0.5 else rng.choice([None, 'restrict'])
            R.on_update, R.on_delete = r.on_update, r.on_delete
        n += 1
    order_t = [i_ for k_, i_ in d2.order if k_ == 't']
    for R, (how, idx, col, r) in zip(db.refs, order):
        if how != 'inline' and r.kind == '<>' and rng.random() < 0.6:
            # the join table must follow a later change of a referenced column (name and type)
            ti = rng.choice([r.t1, r.t2])
            cn = (r.cols1 if ti == r.t1 else r.cols2)[0]
            a = next(c for c in d2.tables[ti].columns if c.name == cn)
            live = db.tables[order_t.index(ti)][cn]
            a.type = am.ColType('plain', 'retyped_' + str(n))
            live.type = a.type.text
            n += 1
    if n:
        sh.count('obs.reference_edits_before_second_render', n)
        check(sh, d2, db, 'api', 'edited', PARTS, api=True)


def plan(tier, seed):
    return [{'shard': i, 'of': 16} for i in range(16)]


def run_shard(spec, tier, seed, budget_s):
    sh = Shard(ID, budget_s)
    sh.pid = ID
    i, n = spec['shard'], spec['of']
    with monitors.ReachMonitor() as reach:
        prng = random.Random(f'{seed}-products')
        for j, doc in enumerate(gen.ref_product(prng, full_actions=(tier == 'thorough'))):
            if j % n != i or sh.out_of_time():
                continue
            c03.both_origins(sh, doc, f'{seed}-{j}', 'product.ref', PARTS, fn=check, api_inline=True)
        rng = random.Random(f'{seed}-random-{i}')
        k = 0
        target = {'quick': 300, 'thorough': 4000}[tier]
        while k < target and not sh.out_of_time():
            k += 1
            size = rng.choice(['small', 'medium', 'medium'] + (['large'] if tier == 'thorough' else []))
            if k <= 2:
                size = 'large'          # a few big documents in every tier (many tables, references, indexes)
            doc = gen.random_doc(rng, size, 'plain')
            for r in doc.refs:
                r.api_inline = rng.random() < 0.4
            suite = 'random'
            if rng.random() < 0.25 and gen.same_bare_names(doc, rng):
                suite = 'samebare'
                # the join table is <left>_<right> in the left schema: keep <> references unambiguous
                seen = set()
                for r in doc.refs:
                    if r.kind == '<>':
                        key = (doc.tables[r.t1].schema, doc.tables[r.t1].name, doc.tables[r.t2].name)
                        if key in seen:
                            r.kind = '>'
                        seen.add(key)
            c03.both_origins(sh, doc, f'{seed}-{i}-{k}', suite, PARTS, fn=check, api_inline=True)
            if k % 3 == 0 and suite == 'random':
                edit_refs_and_recheck(sh, doc, rng, f'{seed}-{i}-{k}')
    for k2, v in reach.counts.items():
        if k2.startswith('renderer.sql') or k2.startswith('_classes.reference'):
            sh.count('reach.' + k2, v)
    return sh


def conclusive(agg, tier):
    c = agg['counters']
    out = []
    need = ['obs.cases.product.ref.api', 'obs.cases.product.ref.parsed', 'obs.cases.random.api', 'obs.cases.samebare.api', 'obs.cases.edited.api', 'class.ref.self',
            'class.ref.cross_schema', 'class.ref.named', 'class.ref.actions', 'obs.statements.alter_fk']
    for kind in ('>', '<', '-'):
        need += [f'class.ref.{kind}.inline.arity1', f'class.ref.{kind}.alter.arity1', f'class.ref.{kind}.alter.arity2',
                 f'class.ref.{kind}.inline.arity2']
    need += ['class.ref.<>.alter.arity1', 'class.ref.<>.alter.arity2']
    for k in need:
        if not c.get(k):
            out.append(f'{k} is zero')
    return out


def replay(v):
    v = dict(v)
    import pv.props.c03 as m
    saved = m.PARTS
    m.PARTS = PARTS
    try:
        out = m.replay(v)
    finally:
        m.PARTS = saved
    for r in out:
        r['property'] = ID
    return out
