"""C11 — Parsing is deterministic, history-independent and re-entrant.

Five monitors, see DESIGN.md C11: determinism (repeats, processes, hash seeds), history independence (+ grammar
fingerprint of the module-level grammar singletons), isolation (identity graphs and edits), schedules (fresh
process first use and steady state, barrier start, switch interval, victim delay through sys.monitoring LINE
events) and reclamation (gc census and weakrefs)."""
import gc
import json
import os
import random
import subprocess
import sys
import weakref

from pv import am, gen, surface, walk, monitors
from pv.common import parse
from pv.result import Shard, digest

ID = 'C11'
MANIFEST = {
    'text': ('Five runtime monitors on the real parser. (1) determinism: a fixed set of documents is parsed repeatedly in every shard; '
             'shards are fresh processes with different PYTHONHASHSEED and their digests of content + both renderings must agree. '
             '(2) history independence: the same documents are parsed after random sequences of other valid, syntactically '
             'invalid and semantically invalid documents; a structural fingerprint of every module-level grammar element '
             '(type, number of parse actions, results name, children) must not change once warmed up. (3) isolation: identity '
             'graphs of any two results must be disjoint; editing one result must change neither another result nor a later parse. '
             '(4) schedules: in fresh interpreters, 8 threads released by a barrier parse different documents as the FIRST use of '
             'the grammar and in steady state, under a small switch interval and under victim delay (one thread slowed inside '
             'pyparsing streamline / the parser methods by sys.monitoring LINE callbacks); every outcome must equal the '
             'sequential outcome; distinct interleaving signatures are counted. (5) reclamation: after dropping a result or '
             'after a failed parse, a gc census of parser / database / blueprint / model classes returns to its baseline and all '
             'weak references are dead.'),
    'note': 'delays are only injected between byte-codes of code that holds no lock (points where CPython may pre-empt anyway); a worker that does not answer within its timeout is inconclusive, not a violation',
    'technique': 'runtime monitoring: history + reference outcome, grammar-singleton fingerprint, identity-graph disjointness, schedule perturbation (barrier, switch interval, sys.monitoring victim delay) in fresh processes, gc census',
}
LEVEL = 'exploration'
BUDGET = {'quick': 120, 'thorough': 420}
RULE = ('(document set, history | schedule recipe); a case = one history or one fresh-process schedule run; distinct by recipe; '
        'non-trivial = more than one document / thread involved; interleavings = distinct switch-point signatures of the order '
        'in which threads entered pydbml functions')
ASSUMPTIONS = ['CPython/pyparsing trusted', 'worker timeouts are reported as inconclusive']


# --------------------------------------------------------------------------- document pools
def pools(seed, n=24):
    rng = random.Random(f'{seed}-c11-pool')
    valid, synbad, sembad = [], [], []
    for k in range(n):
        props = rng.random() < 0.3
        doc = gen.random_doc(rng, rng.choice(['small', 'medium', 'medium']), rng.choice(['plain', 'rich']), props=props)
        text = surface.render(doc, f'{seed}-pool-{k}')
        valid.append({'text': text, 'props': props})
        # syntactically invalid: truncated somewhere in the middle / stray token
        cut = rng.randrange(len(text) // 3, max(len(text) // 3 + 1, 2 * len(text) // 3))
        synbad.append({'text': text[:cut] + '\n@@@ {', 'props': props})
        # semantically invalid: fails inside build_database (unknown table / duplicate) or in a parse action (no columns)
        kind = rng.choice(['ref', 'dup', 'empty'])
        if kind == 'ref':
            sembad.append({'text': text + '\nRef: ghost_table.x > ghost2.y\n', 'props': props})
        elif kind == 'dup':
            t = doc.tables[0]
            nm = f'"{t.name}"' if t.schema == 'public' else f'"{t.schema}"."{t.name}"'
            sembad.append({'text': text + f'\nTable {nm} {{\n  zz int\n}}\n', 'props': props})
        else:
            sembad.append({'text': text + '\nTable emptyone {\n}\n', 'props': props})
    # pairs that reuse the same names with a different meaning: outcome must not depend on which was parsed first
    pairs = []
    for k in range(4):
        tn, en = f'pair_t{k}', f'pair_status{k}'
        b = (f'Enum {en} {{\n  active\n  gone\n}}\nTable {tn} {{\n  id int [pk]\n  st {en}\n  other sch{k}.{en}\n}}\n'
             f'Enum sch{k}.{en} {{\n  x\n}}\n')
        a = f'Table {tn} {{\n  id int [pk]\n  st {en}\n  other sch{k}.{en}\n  extra text\n}}\n'      # same type names, no enums
        c = f'Table {tn} as {en} {{\n  id int\n}}\nTable other{k} {{\n  x int [ref: > {en}.id]\n}}\nTableGroup {en} {{\n  {tn}\n}}\n'
        pairs.append(({'text': b, 'props': False}, {'text': a, 'props': False}, {'text': c, 'props': False}))
    # the enum-declaring documents become fixed documents 0..3, their name-sakes go to the history pool
    valid = [p[0] for p in pairs] + valid
    valid += [p[1] for p in pairs] + [p[2] for p in pairs]
    return valid, synbad, sembad


def _dig(db):
    return 'OK:' + digest([walk.content(db), db.dbml, db.sql, db.sql_renderer.__name__, db.dbml_renderer.__name__, db.allow_properties])


def out_digest(d, route='parse'):
    """outcome of one document; route: 'parse' (PyDBML(text, allow_properties=...)), and for documents without the option also
    'parse_file' (a path) and 'parser' (the parser class used directly): entry points that pass no options at all"""
    if route == 'parse' or d['props']:
        db, err = parse(d['text'], allow_properties=d['props'])
    else:
        try:
            if route == 'parse_file':
                import tempfile
                from pydbml import PyDBML
                fd, pth = tempfile.mkstemp(suffix='.dbml', dir=os.environ.get('PV_SCRATCH') or None)
                try:
                    with os.fdopen(fd, 'w', encoding='utf8', newline='') as f:
                        f.write(d['text'])
                    db, err = PyDBML.parse_file(pth), None
                finally:
                    os.unlink(pth)
            else:
                from pv.common import parser_class
                cls_ = parser_class()
                db, err = (cls_(d['text']).parse(), None) if cls_ is not None else parse(d['text'])
        except Exception as e:  # noqa
            db, err = None, e
    if err is not None:
        return 'EXC:' + type(err).__name__, None
    try:
        return _dig(db), db
    except Exception as e:  # noqa
        return 'RENDER-EXC:' + type(e).__name__, db


def custom_parse(d, rng):
    """a parse with non-default options (renderer subclasses, arbitrary properties) through a randomly chosen entry point"""
    from pydbml import PyDBML
    from pydbml.renderer.sql.default import DefaultSQLRenderer
    from pydbml.renderer.dbml.default import DefaultDBMLRenderer
    S = type('HistSQL', (DefaultSQLRenderer,), {})
    D = type('HistDBML', (DefaultDBMLRenderer,), {})
    try:
        how = rng.choice(['ctor', 'parse', 'parser'])
        if how == 'ctor':
            db = PyDBML(d['text'], allow_properties=True, sql_renderer=S, dbml_renderer=D)
        elif how == 'parse':
            db = PyDBML.parse(d['text'], allow_properties=True, sql_renderer=S, dbml_renderer=D)
        else:
            from pv.common import parser_class
            cls_ = parser_class()
            db = cls_(d['text'], allow_properties=True, sql_renderer=S, dbml_renderer=D).parse() if cls_ is not None else None
        if db is not None:
            db.sql, db.dbml
    except Exception:  # noqa
        pass


# --------------------------------------------------------------------------- grammar fingerprint (M4)
def grammar_fingerprint():
    import importlib
    import pkgutil
    import pyparsing as pp
    import pydbml.definitions as D
    fp = {}
    memo = {}

    def one(e, depth=0):
        if id(e) in memo:
            return memo[id(e)]
        memo[id(e)] = ('rec',)
        kids = []
        if hasattr(e, 'exprs'):
            kids = [one(x, depth + 1) for x in e.exprs]
        elif getattr(e, 'expr', None) is not None and isinstance(e.expr, pp.ParserElement):
            kids = [one(e.expr, depth + 1)]
        r = (type(e).__name__, len(e.parseAction), e.resultsName, tuple(kids))
        memo[id(e)] = r
        return r
    for m in pkgutil.iter_modules(D.__path__):
        mod = importlib.import_module('pydbml.definitions.' + m.name)
        for name, val in vars(mod).items():
            if isinstance(val, pp.ParserElement):
                fp[f'{m.name}.{name}'] = digest(repr(one(val)))
    return fp


# --------------------------------------------------------------------------- the in-process monitors
def mon_history(sh, seed, i, tier, valid, synbad, sembad):
    rng = random.Random(f'{seed}-hist-{i}')
    fixed = valid[:8]
    if i % 2:
        # odd shards parse the name-sake documents BEFORE the fixed ones get their reference outcome:
        # the cross-shard comparison of the det| digests then sees an order dependence as well
        for d in valid[-8:]:
            out_digest(d)
    ref = [out_digest(d)[0] for d in fixed]          # also the warm-up
    for k, (d, r) in enumerate(zip(fixed, ref)):
        sh.count(f'det|{k}|{r}')                      # compared across shards (processes, hash seeds)
    fp0 = grammar_fingerprint()
    sh.count('obs.grammar_elements_fingerprinted', len(fp0))
    n = {'quick': 12, 'thorough': 400}[tier]
    for h in range(n):
        if sh.out_of_time():
            break
        L = rng.randint(1, 6)
        hist = []
        for _ in range(L):
            pool = rng.choice([valid, synbad, sembad, sembad, 'custom'])
            if pool == 'custom':
                j = rng.randrange(len(valid))
                hist.append(('c', j))
                custom_parse(valid[j], rng)         # an earlier call with other renderer classes / the option on
                sh.count('obs.history_steps_with_custom_options')
                continue
            j = rng.randrange(len(pool))
            hist.append(('v' if pool is valid else 's' if pool is synbad else 'm', j))
            out_digest(pool[j])
        k = rng.randrange(len(fixed))
        route = rng.choice(['parse', 'parse_file', 'parser'])
        got = out_digest(fixed[k], route)[0]
        sh.count('obs.history_then_route.' + route)
        sh.case(['hist', hist, k], nontrivial=True, sample={'monitor': 'history', 'history': hist, 'then_document': k, 'outcome': got[:20]})
        sh.count('obs.histories')
        if got != ref[k]:
            sh.violation('history', 'history:outcome-depends-on-earlier-parses', f'after {hist}: document {k} gives {got[:30]}, fresh {ref[k][:30]}',
                         {'kind': 'hist', 'history': hist, 'doc': fixed[k]})
        # repeated parse: determinism in-process
        if out_digest(fixed[k], route)[0] != got:
            sh.violation('determinism', 'determinism:repeated-parse-differs', f'document {k} parsed twice in a row differs', {'kind': 'hist', 'doc': fixed[k]})
        if h % 4 == 0:
            fp = grammar_fingerprint()
            changed = sorted(k2 for k2 in fp0 if fp.get(k2) != fp0[k2])
            if changed or set(fp) != set(fp0):
                sh.violation('history', 'history:grammar-singletons-mutated', f'module-level grammar elements changed by parsing: {changed[:6]}',
                             {'kind': 'grammar', 'changed': changed[:20]})
                fp0 = fp
            sh.count('obs.grammar_fingerprint_checks')


def mon_filehistory(sh, seed, i, tier, valid):
    """history through the path-based entry points: the same path is parsed, the file is rewritten with another document
    (same size, same time stamp), the path is parsed again: the outcome is the one of the document that is in the file now"""
    import re
    import tempfile
    from pathlib import Path
    from pydbml import PyDBML
    rng = random.Random(f'{seed}-fh-{i}')
    tmpdir = tempfile.mkdtemp(prefix='pv-c11-', dir=os.environ.get('PV_SCRATCH') or None)
    try:
        for h in range({'quick': 6, 'thorough': 60}[tier]):
            d = rng.choice(valid)
            if d['props']:
                continue
            text = d['text']
            ms = list(re.finditer(r'\d', text))
            if not ms:
                continue
            m_ = rng.choice(ms)
            text2 = text[:m_.start()] + str((int(m_.group()) + 1) % 10) + text[m_.end():]
            pth = os.path.join(tmpdir, f'h{h}.dbml')
            with open(pth, 'w', encoding='utf8', newline='') as f:
                f.write(text)
            st = os.stat(pth)
            for name, th in (('PyDBML(Path)', lambda: PyDBML(Path(pth))), ('parse_file(str)', lambda: PyDBML.parse_file(pth))):
                with open(pth, 'w', encoding='utf8', newline='') as f:
                    f.write(text)
                os.utime(pth, ns=(st.st_atime_ns, st.st_mtime_ns))
                try:
                    th()
                except Exception:  # noqa
                    pass
                with open(pth, 'w', encoding='utf8', newline='') as f:
                    f.write(text2)
                os.utime(pth, ns=(st.st_atime_ns, st.st_mtime_ns))
                want = out_digest({'text': text2, 'props': False})[0]
                try:
                    db = th()
                    got = _dig(db)
                except Exception as e:  # noqa
                    got = 'EXC:' + type(e).__name__
                sh.case(['filehist', h, name], nontrivial=True, sample={'monitor': 'file-history', 'route': name})
                sh.count('obs.file_histories')
                if got != want:
                    sh.violation('history', f'history:path-parse-returns-earlier-file-content:{name}',
                                 f'{name}: after the file was rewritten the outcome is {got[:24]}, the document now in the file gives {want[:24]}',
                                 {'kind': 'filehist', 'text': text, 'text2': text2, 'route': name})
    finally:
        import shutil
        shutil.rmtree(tmpdir, ignore_errors=True)


ENV_PROG = '''
import json, sys, os
from pathlib import Path
from pydbml import PyDBML
from pv.props.c11 import _dig
pth = sys.argv[1]
out = {}
for name, call in (('PyDBML(Path)', lambda: PyDBML(Path(pth))), ('parse_file(str)', lambda: PyDBML.parse_file(pth)),
                   ('parse_file(Path)', lambda: PyDBML.parse_file(Path(pth))), ('PyDBML(file)', lambda: PyDBML(open(pth, encoding='utf8')))):
    try:
        out[name] = _dig(call())
    except Exception as e:
        out[name] = 'EXC:' + type(e).__name__
print(json.dumps(out))
'''


def mon_environment(sh, seed, i, tier, valid):
    """'depends only on that document and the options passed': the same UTF-8 file parsed in a child interpreter whose locale
    is not UTF-8 (LC_ALL=C, UTF-8 mode and locale coercion off) gives the outcome it gives here"""
    import tempfile
    if i % 4:
        return
    rng = random.Random(f'{seed}-env-{i}')
    tmpdir = tempfile.mkdtemp(prefix='pv-c11e-', dir=os.environ.get('PV_SCRATCH') or None)
    try:
        for h in range({'quick': 2, 'thorough': 6}[tier]):
            cands = [d for d in valid if not d['props'] and any(ord(ch) > 127 for ch in d['text'])]
            if not cands:
                sh.count('obs.environment_no_non_ascii_document')
                return
            d = rng.choice(cands)
            want = out_digest(d)[0]
            pth = os.path.join(tmpdir, f'e{h}.dbml')
            with open(pth, 'w', encoding='utf8', newline='') as f:
                f.write(d['text'])
            env = dict(os.environ, LC_ALL='C', LANG='C', PYTHONUTF8='0', PYTHONCOERCECLOCALE='0', PYTHONIOENCODING='utf-8')
            try:
                p = subprocess.run([sys.executable, '-c', ENV_PROG, pth], env=env, stdout=subprocess.PIPE, stderr=subprocess.PIPE, text=True, timeout=120)
                res = json.loads(p.stdout.strip().split('\n')[-1])
            except Exception as e:  # noqa
                sh.inconclusive.append(f'environment probe failed: {type(e).__name__}: {str(e)[:80]}')
                continue
            for name, got in res.items():
                sh.case(['env', h, name], nontrivial=True, sample={'monitor': 'environment', 'route': name})
                sh.count('obs.environment_probes')
                if got != want:
                    sh.violation('determinism', f'determinism:outcome-depends-on-the-process-locale:{name}',
                                 f'{name} under LC_ALL=C without UTF-8 mode: {got[:24]}, here {want[:24]}', {'kind': 'env', 'doc': d, 'route': name})
    finally:
        import shutil
        shutil.rmtree(tmpdir, ignore_errors=True)


def mon_interleaved(sh, seed, i, tier, valid):
    """two parser objects exist at the same time (both constructed, then parsed in either order; a third parse in between):
    each still gives the outcome its document has on its own.  Uses the parser class of pydbml.parser (found by scan: a
    class there with a parse() method whose constructor takes the source); not applicable if there is none."""
    import inspect
    import pydbml.parser.parser as P
    cls = None
    for c in vars(P).values():
        if isinstance(c, type) and c.__module__ == P.__name__ and callable(getattr(c, 'parse', None)) and c.__name__ != 'PyDBML':
            try:
                params = list(inspect.signature(c.__init__).parameters)
            except (TypeError, ValueError):
                continue
            if len(params) >= 2 and 'allow_properties' in params:
                cls = c
    if cls is None:
        sh.count('obs.interleaved_not_applicable')
        return
    rng = random.Random(f'{seed}-inter-{i}')

    def dig(db):
        return _dig(db)

    def run(p):
        try:
            return dig(p.parse())
        except Exception as e:  # noqa
            return 'EXC:' + type(e).__name__
    n = {'quick': 10, 'thorough': 200}[tier]
    for h in range(n):
        if sh.out_of_time():
            break
        if h % 2 == 0:
            k = rng.randrange(4)
            a, b = valid[k], rng.choice([valid[-8 + k], valid[-4 + k]])      # an enum-declaring document and a name-sake of it
        else:
            a, b = rng.sample(valid, 2)
        ra, rb = out_digest(a)[0], out_digest(b)[0]
        for order in ('ab', 'ba', 'a-x-b'):
            pa = cls(a['text'], allow_properties=a['props'])
            pb = cls(b['text'], allow_properties=b['props'])
            if order == 'ab':
                ga, gb = run(pa), run(pb)
            elif order == 'ba':
                gb, ga = run(pb), run(pa)
            else:
                ga = run(pa)
                out_digest(rng.choice(valid))
                gb = run(pb)
            sh.case(['inter', h, order], nontrivial=True, sample={'monitor': 'interleaved', 'order': order})
            sh.count('obs.interleaved')
            if ga != ra or gb != rb:
                sh.violation('history', 'history:two-live-parsers-influence-each-other',
                             f'order {order}: outcomes {ga[:24]}, {gb[:24]} vs on their own {ra[:24]}, {rb[:24]}',
                             {'kind': 'interleaved', 'a': a, 'b': b, 'order': order})


def mon_isolation(sh, seed, i, tier, valid):
    from pydbml.classes import Column, Table, Note
    rng = random.Random(f'{seed}-iso-{i}')
    n = {'quick': 10, 'thorough': 300}[tier]
    for h in range(n):
        if sh.out_of_time():
            break
        a, b = rng.choice(valid), rng.choice(valid + [None])
        if b is None:
            b = a                                        # same text twice
        ra, A = out_digest(a)
        rb, B = out_digest(b)
        if A is None or B is None:
            continue
        sh.case(['iso', digest(a['text']), digest(b['text'])], nontrivial=True,
                sample={'monitor': 'isolation', 'same_text': a is b})
        ia, ib = walk.identity(A), walk.identity(B)
        shared = [o for k, o in ia.items() if k in ib]
        sh.count('obs.identity_objects_compared', len(ia) + len(ib))
        if shared:
            kinds = sorted({type(o).__name__ for o in shared})
            sh.violation('isolation', 'isolation:shared-mutable-object:' + kinds[0], f'{len(shared)} objects reachable from both results: {kinds}',
                         {'kind': 'iso', 'a': a, 'b': b})
        # edit A heavily; B and a later parse of b must not notice
        before_b = digest([walk.content(B), B.dbml, B.sql])
        if A.project is not None:
            A.project.items['injected'] = 'x'
            A.project.note = Note('changed')
        for t in A.tables:
            t.properties['injected'] = 'y'
            t.note = Note('changed note')
            for c in t.columns:
                c.properties['injected'] = 'z'
                c.name = c.name + '_edited'
                if hasattr(c.default, 'text') and not isinstance(c.default, str):
                    c.default.text = c.default.text + ' /*edited*/'
            for ix in t.indexes:
                for sbj in ix.subjects:
                    if hasattr(sbj, 'text') and not hasattr(sbj, 'table'):
                        sbj.text = sbj.text + ' /*edited*/'
                if ix.note is not None:
                    ix.note.text = 'changed index note'
        A.add(Table('added_by_edit', columns=[Column('q', 'int')]))
        for e in A.enums:
            e.add_item('injected_item')
            for it in e.items:
                if it.note is not None:
                    it.note.text = 'changed item note'
        for g in A.table_groups:
            if g.note is not None:
                g.note.text = 'changed group note'
        for st in A.sticky_notes:
            st.text = 'changed sticky'
        after_b = digest([walk.content(B), B.dbml, B.sql])
        if after_b != before_b:
            sh.violation('isolation', 'isolation:edit-leaks-into-other-result', 'editing one result changed another', {'kind': 'iso', 'a': a, 'b': b})
        again = out_digest(b)[0]
        if again != rb:
            sh.violation('isolation', 'isolation:edit-leaks-into-later-parse', 'editing a result changed the outcome of a later parse', {'kind': 'iso', 'a': a, 'b': b})
        sh.count('obs.isolation_pairs')


def mon_reclaim(sh, seed, i, tier, valid, synbad, sembad):
    rng = random.Random(f'{seed}-gc-{i}')
    out_digest(valid[0])
    gc.collect()
    base = monitors.census()
    n = {'quick': 12, 'thorough': 300}[tier]
    for h in range(n):
        if sh.out_of_time():
            break
        pool = rng.choice([valid, synbad, sembad])
        d = rng.choice(pool)
        kind = 'valid' if pool is valid else 'syntax-error' if pool is synbad else 'semantic-error'
        refs = []
        db, err = parse(d['text'], allow_properties=d['props'])
        if db is not None:
            refs.append(weakref.ref(db))
            refs += [weakref.ref(t) for t in db.tables[:3]]
            refs += [weakref.ref(r) for r in db.refs[:2]]
            if rng.random() < 0.5:
                db.dbml, db.sql
        if err is not None:
            err.__traceback__ = None
        del db, err
        gc.collect()
        now = monitors.census()
        sh.case(['gc', kind, digest(d['text'])], nontrivial=True, sample={'monitor': 'reclamation', 'after': kind})
        sh.count('obs.census_rounds.' + kind)
        leaked = {k: now[k] - base.get(k, 0) for k in now if now[k] != base.get(k, 0)}
        alive = sum(1 for r in refs if r() is not None)
        if leaked or alive:
            first = sorted(leaked)[0] if leaked else 'weakref'
            sh.violation('reclaim', f'reclaim:still-alive-after-{kind}:{first}', f'census delta {leaked}, {alive} weakrefs alive',
                         {'kind': 'gc', 'doc': d, 'after': kind})
            base = now


def run_workers(sh, seed, i, tier, valid, synbad, sembad):
    rng = random.Random(f'{seed}-sched-{i}')
    scratch = os.environ.get('PV_SCRATCH') or '/tmp'
    runs = {'quick': 5, 'thorough': 60}[tier]
    sigset = set()
    for r in range(runs):
        if sh.out_of_time():
            break
        mode = 'first' if r % 5 != 4 else 'steady'
        perturb = ['victim', 'victim', 'switch', 'victim', 'switch'][r % 5]
        docs = [rng.choice(valid) for _ in range(6)] + [rng.choice(synbad), rng.choice(sembad)]
        rng.shuffle(docs)
        docset = ['pool', 'pool', 'shared-text', 'same-document'][r % 4] if r else 'pool'
        if docset == 'shared-text':
            # every thread's document ends with the same long sticky note and the same long table note (equal texts in
            # documents that are parsed at the same time), the rest of each document is its own
            body = '\n'.join(f'    shared line {n} of the common note' for n in range(rng.choice([20, 150])))
            tail = f"\nNote shared_sticky {{\n'''\n{body}\n'''\n}}\nTable shared_tail {{\n  id int [note: '''\n{body}\n''']\n  Note: '''\n{body}\n  '''\n}}\n"
            docs = [{'text': d['text'] + tail, 'props': d['props']} for d in docs]
        elif docset == 'same-document':
            docs = [docs[0]] * 4 + [docs[1]] * 4
        sh.count('obs.schedule_docsets.' + docset)
        spec = {'mode': mode, 'nthreads': 8, 'rounds': 1 if mode == 'first' else 6, 'perturb': perturb, 'seed': f'{seed}-{i}-{r}',
                'docs': docs, 'victim': rng.randrange(8), 'p': rng.choice([0.1, 0.3, 0.6]), 'switchinterval': rng.choice([1e-6, 1e-5, 1e-4])}
        sf = os.path.join(scratch, f'c11-{i}-{r}.json')
        with open(sf, 'w') as f:
            json.dump(spec, f)
        try:
            p = subprocess.run([sys.executable, '-m', 'pv.c11worker', sf], stdout=subprocess.PIPE, stderr=subprocess.PIPE,
                               timeout=150, text=True)
            res = json.loads(p.stdout.strip().split('\n')[-1])
        except subprocess.TimeoutExpired:
            sh.inconclusive.append(f'schedule worker {i}/{r} ({mode},{perturb}) timed out')
            continue
        except Exception as e:  # noqa
            sh.inconclusive.append(f'schedule worker {i}/{r} failed: {type(e).__name__}: {str(e)[:100]} {p.stderr[-300:] if "p" in dir() else ""}')
            continue
        if 'error' in res:
            sh.inconclusive.append('worker: ' + res['error'])
            continue
        recipe = {k: spec[k] for k in ('mode', 'perturb', 'victim', 'p', 'switchinterval', 'seed')}
        sh.case(['sched', recipe], nontrivial=True, sample={'monitor': 'schedule', 'recipe': recipe, 'signatures': res['sigs'][:3], 'delays': res['delays']})
        sh.count(f'obs.schedule_runs.{mode}.{perturb}')
        sh.count('obs.delays_injected', res['delays'])
        for s in res['sigs']:
            sigset.add(tuple(s))
            sh.states.add(f'{s[0]}-{s[1]}')
            sh.count('obs.thread_switch_points', s[0])
        for rr in res['results']:
            if rr.get('stuck'):
                sh.violation('schedule', f'schedule:parse-never-returns:{mode}', f'{mode}/{perturb}: threads {rr["stuck"]} sat at the same instruction for 8 s after a 90 s wait '
                             f'(documents {[rr["idx"][k_] for k_ in rr["stuck"]]}); outcomes of the others: {[str(o_)[:20] for o_ in rr["out"]]}',
                             {'kind': 'sched', 'spec': spec}, {'mode': mode, 'perturb': perturb})
                continue
            if rr['hung']:
                sh.inconclusive.append(f'threads {rr["hung"]} did not finish in worker {i}/{r}')
            for k, (o, di) in enumerate(zip(rr['out'], rr['idx'])):
                sh.count('obs.concurrent_parses')
                want = res['seq'][di]
                if want is None:
                    continue
                if o != want:
                    kindk = 'valid-document-rejected' if want.startswith('OK') and str(o).startswith('EXC') else 'outcome-differs'
                    sh.violation('schedule', f'schedule:{kindk}:{mode}', f'{mode}/{perturb}: thread {k}: concurrent {str(o)[:40]} vs sequential {want[:40]}',
                                 {'kind': 'sched', 'spec': spec}, {'mode': mode, 'perturb': perturb})
    sh.count('obs.distinct_interleavings', len(sigset))


def mon_reentrant(sh, seed, i, tier, valid):
    """same-thread re-entrancy: an inner parse started at the N-th function entry of an outer parse (fresh interpreter per
    probe); both must give the outcome their documents give on their own, and the outer parse must come back"""
    rng = random.Random(f'{seed}-reent-{i}')
    scratch = os.environ.get('PV_SCRATCH') or '/tmp'
    for h in range({'quick': 2, 'thorough': 12}[tier]):
        if sh.out_of_time():
            break
        a, b = rng.sample(valid, 2)
        spec = {'mode': 'reentrant', 'nthreads': 1, 'rounds': 1, 'perturb': 'none', 'seed': f'{seed}-{i}-re{h}', 'docs': [a, b],
                'at': rng.choice([1, 3, 10, 40, 120, 400, 1500]), 'warm': rng.random() < 0.5}
        sf = os.path.join(scratch, f'c11-re-{i}-{h}.json')
        with open(sf, 'w') as f:
            json.dump(spec, f)
        try:
            p = subprocess.run([sys.executable, '-m', 'pv.c11worker', sf], stdout=subprocess.PIPE, stderr=subprocess.PIPE, timeout=150, text=True)
            res = json.loads(p.stdout.strip().split('\n')[-1])['reentrant']
        except subprocess.TimeoutExpired:
            sh.inconclusive.append(f're-entrancy probe {i}/{h} timed out')
            continue
        except Exception as e:  # noqa
            sh.inconclusive.append(f're-entrancy probe {i}/{h} failed: {type(e).__name__}: {str(e)[:80]}')
            continue
        sh.case(['reentrant', spec['at'], spec['warm'], h], nontrivial=True, sample={'monitor': 're-entrancy', 'at': spec['at'], 'entries': res.get('entries')})
        sh.count('obs.reentrant_probes')
        case = {'kind': 'reentrant', 'spec': spec}
        if res.get('stuck'):
            sh.violation('schedule', 'reentrant:outer-parse-never-returns', f'inner parse started at function entry {spec["at"]} of the outer one: the thread sat at one instruction', case)
            continue
        if res.get('inner') is None:
            sh.count('obs.reentrant_inner_not_reached')
            continue
        sh.count('obs.reentrant_inner_parses')
        if res['outer'] != res['seq'][0] or res['inner'] != res['seq'][1]:
            sh.violation('schedule', 'reentrant:outcome-differs', f'at entry {spec["at"]}: outer {str(res["outer"])[:24]} / inner {str(res["inner"])[:24]} vs alone '
                         f'{res["seq"][0][:24]} / {res["seq"][1][:24]}', case)


def plan(tier, seed):
    return [{'shard': i, 'of': 16, 'hashseed': (seed * 31 + i * 7919) % 4294967295} for i in range(16)]


def run_shard(spec, tier, seed, budget_s):
    sh = Shard(ID, budget_s)
    i = spec['shard']
    valid, synbad, sembad = pools(seed)
    # sanity of the pools (harness): valid must parse, the others must fail
    if i == 0:
        for d in valid:
            if out_digest(d)[0].startswith('EXC'):
                sh.inconclusive.append('a pool document expected valid is rejected (C01 business): ' + out_digest(d)[0])
        ok_bad = sum(1 for d in synbad + sembad if out_digest(d)[0].startswith('EXC'))
        sh.count('obs.pool_invalid_documents_rejected', ok_bad)
    run_workers(sh, seed, i, tier, valid, synbad, sembad)      # first: fresh worker processes
    mon_history(sh, seed, i, tier, valid, synbad, sembad)
    mon_reentrant(sh, seed, i, tier, valid)
    mon_interleaved(sh, seed, i, tier, valid)
    mon_environment(sh, seed, i, tier, valid)
    mon_filehistory(sh, seed, i, tier, valid)
    mon_isolation(sh, seed, i, tier, valid)
    mon_reclaim(sh, seed, i, tier, valid, synbad, sembad)
    return sh


def finalize(agg):
    seen = {}
    for key in agg['counters']:
        if key.startswith('det|'):
            _, d, dig = key.split('|', 2)
            seen.setdefault(d, set()).add(dig)
    out = []
    for d, digs in seen.items():
        if len(digs) > 1:
            out.append({'property': ID, 'sub': 'determinism', 'klass': 'determinism:outcome-differs-across-processes',
                        'detail': f'fixed document #{d}: {len(digs)} distinct outcomes across fresh processes with different PYTHONHASHSEED: {sorted(x[:24] for x in digs)}',
                        'case': {'kind': 'det', 'doc': d}, 'features': {}})
    agg['counters'] = {k: v for k, v in agg['counters'].items() if not k.startswith('det|')}
    agg['counters']['obs.det_documents_compared_across_processes'] = len(seen)
    return out


def conclusive(agg, tier):
    c = agg['counters']
    need = ['obs.histories', 'obs.grammar_fingerprint_checks', 'obs.grammar_elements_fingerprinted', 'obs.isolation_pairs',
            'obs.identity_objects_compared', 'obs.census_rounds.valid', 'obs.census_rounds.syntax-error', 'obs.census_rounds.semantic-error',
            'obs.schedule_runs.first.victim', 'obs.schedule_runs.first.switch', 'obs.schedule_runs.steady.switch', 'obs.concurrent_parses',
            'obs.distinct_interleavings', 'obs.det_documents_compared_across_processes', 'obs.delays_injected']
    out = [f'{k} is zero' for k in need if not c.get(k)]
    if c.get('obs.distinct_interleavings', 0) < 5:
        out.append('fewer than 5 distinct interleavings were observed')
    return out


def replay(v):
    sh = Shard(ID)
    case = v.get('case') or {}
    if case.get('kind') == 'sched':
        import tempfile
        hits = 0
        for attempt in range(10):
            with tempfile.NamedTemporaryFile('w', suffix='.json', delete=False) as f:
                json.dump(dict(case['spec'], seed=f'{case["spec"]["seed"]}-replay{attempt}'), f)
            try:
                p = subprocess.run([sys.executable, '-m', 'pv.c11worker', f.name], stdout=subprocess.PIPE, stderr=subprocess.PIPE, timeout=150, text=True)
                res = json.loads(p.stdout.strip().split('\n')[-1])
                for rr in res['results']:
                    for o, di in zip(rr['out'], rr['idx']):
                        if o != res['seq'][di]:
                            hits += 1
            except Exception:
                pass
            finally:
                os.unlink(f.name)
        if hits:
            sh.violation('schedule', v['klass'], f'{hits} disagreeing outcomes in 10 fresh-process repetitions of the recipe', case, v.get('features'))
        return sh.violations
    return [dict(v)]
