"""C07 — Malformed text is never accepted.

The independent writer enumerates the structural positions (slots) of a valid
generated document; one fault of a provably invalid kind is planted at one
slot; the real parser must raise a pyparsing syntax error.  Control: the same
document without the fault must parse."""
import random

from pv import am, gen, surface, monitors
from pv.common import parse
from pv.result import Shard

ID = 'C07'
MANIFEST = {
    'text': ('Plants exactly one syntax fault of a provably invalid kind (stray non-identifier tokens, lone quote / bracket / brace, '
             'stray word at top level, unterminated block comment or string, dropped or doubled { } [ ], column without type, '
             'unknown setting / index type / reference operator / action, malformed colour, empty settings list, double or '
             'trailing comma) at an enumerated structural position (own line in every kind of body and settings list, end of '
             'every line, gaps between tokens, every structural bracket) of a generated valid document and requires a pyparsing '
             'syntax error from the real parser. Per (fault kind x position class) counts are in the evidence.'),
    'note': 'invalidity of each fault kind is argued from DBML itself (brackets balance outside strings/comments, no rule starts with such a token), see DESIGN.md C07; positions come from the writer\'s own slot enumeration, so they are exact; block comments are not used in hosts so that an unterminated comment cannot be closed later',
    'technique': 'runtime monitoring: single syntax-fault injection at enumerated structural positions with accept/reject oracle and control run',
}
LEVEL = 'fault_enumeration'
BUDGET = {'quick': 90, 'thorough': 400}
RULE = ('(host document, slot, fault payload); in quick a seeded sample of slots per host, in thorough every slot of every '
        'host x every applicable payload; distinct by text hash; non-trivial = every case (each carries a fault)')
ASSUMPTIONS = ['the host without the fault parses (control, per host)', 'hosts contain no */ and no block comments', 'CPython/pyparsing trusted']

SYMS = ['@@@', '!!', '$%', '^', '~~', '&&', '??']
KNOBS = {'pk_spelling': 'pk', 'block_comments': False}
BAD_COLORS = ['#ab', '#abcd', '#abcde', '#abcdef0', '#ggg', '#12345g', '#', '#a']


def payloads(kind, props=False):
    """applicable fault payloads for a slot kind -> list of (fault class, text)"""
    out = []
    if kind.startswith('own:'):
        ctx = kind[4:]
        out += [('stray-symbol', s) for s in SYMS[:3]]
        out += [('lone-quote', "'"), ('lone-quote', '"')]
        out += [('lone-bracket', b) for b in '{}[]']
        out += [('unterminated-comment', x) for x in ('/* never closed', '/*/', '/*/ never closed', '/**', '/* *', '/* * /', '/*')]
        out += [('stray-bom', '\ufeff')]
        if ctx in ('top', 'end'):
            out += [('stray-word', 'zzzstray'), ('stray-word', 'zzz stray words'), ('non-ascii-bare-word', 'тест'), ('non-ascii-bare-word', 'naïve')]
        if ctx in ('enum_body', 'group_body', 'indexes_body'):
            out += [('non-ascii-bare-word', 'тест'), ('non-ascii-bare-word', 'élément'), ('non-ascii-bare-word', '日本')]
    elif kind.startswith('eol:'):
        out += [('stray-symbol', s) for s in SYMS[:2]]
        out += [('lone-quote', "'"), ('lone-quote', '"')]
        out += [('lone-bracket', b) for b in '{}[]']
        out += [('unterminated-comment', x) for x in ('/* never closed', '/*/', '/*/ x', '/**', '/* * /')]
        out += [('stray-bom', '\ufeff')]
    elif kind.startswith('gap:'):
        out += [('stray-symbol', s) for s in SYMS[:2]] + [('stray-bom', '\ufeff')]
        if kind == 'gap:col:before-settings':
            out += [('stray-word-after-type', 'zzzstray'), ('stray-word-after-type', 'garbage words')]
    elif kind.startswith('fault:tok:'):
        out += [('bracket-dropped', 'drop'), ('bracket-doubled', 'double')]
    elif kind.startswith('fault:settings:'):
        out += [('unknown-setting', 'unknown'), ('empty-settings', 'empty'), ('double-comma', 'dcomma'), ('trailing-comma', 'tcomma'), ('second-settings-list', 'twolists'), ('unknown-setting', 'foreign'),
                ('unknown-setting', 'unknown-kv-word'), ('unknown-setting', 'unknown-kv-number')]
        if not props:      # `key: 'string'` is a property when arbitrary properties are enabled
            out += [('unknown-setting', 'unknown-kv-string')]
    elif kind == 'fault:lit:indextype':
        out += [('unknown-index-type', x) for x in ('zzz', 'bitmap', 'tree', 'btre', 'has', 'in', 'gis', 'b', 'hashh', 'btreee', 'bt ree')]
    elif kind == 'fault:lit:refop':
        out += [('unknown-ref-operator', x) for x in ('=>', '~', '><', '->', '=', '>>', '<<', '<-', '--', '>-', '<->', '<>>', '> >')]
    elif kind == 'fault:lit:action':
        out += [('unknown-action', x) for x in ('explode', 'set nothing', 'cascad', 'no', 'set', 'restricted', 'noaction')]
    elif kind == 'fault:lit:color':
        out += [('malformed-colour', c) for c in BAD_COLORS]
    elif kind == 'fault:lit:coltype':
        out += [('column-without-type', 'drop')]
    return out


def position_class(kind):
    return kind.replace('fault:', '')


def plan(tier, seed):
    return [{'shard': i, 'of': 16} for i in range(16)]


def one(sh, doc, sseed, slot_no, kind, fclass, text, props):
    bad = surface.render(doc, sseed, KNOBS, inject={slot_no: text})
    if fclass == 'stray-bom' and bad.startswith('\ufeff') and not bad.startswith('\ufeff\ufeff'):
        sh.count('obs.leading_bom_is_not_a_fault')
        return
    sh.case(bad, nontrivial=True, sample={'fault': fclass, 'position': position_class(kind), 'payload': text, 'text': bad[:900]})
    sh.count(f'obs.fault.{fclass}')
    sh.count(f'obs.position.{position_class(kind).split(":")[0]}')
    db, err = parse(bad, allow_properties=props)
    case = {'kind': 'reject-syntax', 'text': bad, 'allow_properties': props}
    feats = {'fault': fclass, 'position': position_class(kind)}
    if err is None:
        sh.violation('accept', f'accepted:{fclass}@{position_class(kind)}',
                     f'{fclass} ({text!r}) at {position_class(kind)}: document was accepted', case, feats)
    elif not rejected_as_syntax(err):
        cls, where = monitors.classify_exc(err)
        sh.violation('class', f'not-a-syntax-error:{fclass}@{position_class(kind)}:{cls}',
                     f'{fclass} ({text!r}) at {position_class(kind)}: raised {cls} ({err}) at {where}', case, feats)
    else:
        sh.count('obs.rejected_with_syntax_error')
        sh.count(f'obs.raised.{type(err).__name__}')
        leak_probe(sh, bad, fclass, kind)


PROBE = 'Table probe_only {\n  probe_col int [pk]\n}\nEnum probe_enum {\n  probe_item\n}\n'
_probe = {'n': 0, 'base': None}


def leak_probe(sh, rejected_text, fclass, kind):
    """after a rejected document, a fixed small document must still give exactly its own content
    (no prefix / fragment of the rejected one may leak into a later result)"""
    from pv import walk
    _probe['n'] += 1
    if _probe['n'] % 7 and _probe['base'] is not None:
        return
    db, err = parse(PROBE)
    got = ('EXC', type(err).__name__, str(err)[:80]) if err is not None else walk.content(db)
    if _probe['base'] is None:
        _probe['base'] = got
        return
    sh.count('obs.leak_probes')
    if got != _probe['base']:
        names = [t['name'] for t in got['tables']] if isinstance(got, dict) else got
        sh.violation('leak', 'leak:rejected-document-leaks-into-next-result',
                     f'after a rejected document ({fclass} at {position_class(kind)}) the probe document gives {str(names)[:200]}',
                     {'kind': 'leak', 'rejected': rejected_text, 'probe': PROBE}, {'fault': fclass})
        _probe['base'] = got


def unterminated_string(sh, last_lit, text, props):
    """remove the closing quote of the last string literal the writer emitted, provided no quote
    character of any kind occurs after it (so nothing can close the literal again)"""
    if not last_lit:
        return
    q, lit = last_lit
    k = text.rfind(lit)
    if k < 0:
        return
    tail = text[k + len(lit):]
    if any(ch in tail for ch in '\'"`'):
        sh.count('obs.unterminated_string_not_applicable')
        return
    bad = text[:k] + lit[:-len(q)] + tail
    sh.case(bad, nontrivial=True, sample={'fault': 'unterminated-string', 'text': bad[-300:]})
    sh.count('obs.fault.unterminated-string')
    db, err = parse(bad, allow_properties=props)
    case = {'kind': 'reject-syntax', 'text': bad, 'allow_properties': props}
    if err is None:
        sh.violation('accept', 'accepted:unterminated-string', f'closing {q} removed: accepted', case)
    elif not rejected_as_syntax(err):
        cls, where = monitors.classify_exc(err)
        sh.violation('class', f'not-a-syntax-error:unterminated-string:{cls}', f'{cls}: {err}', case)
    else:
        sh.count('obs.rejected_with_syntax_error')


def rejected_as_syntax(err):
    """a pyparsing syntax error, or the built-in SyntaxError the table rule raises when a
    fault leaves a table without columns"""
    return monitors.is_parse_error(err) or type(err) is SyntaxError


HANDMADE = [      # (fault class, document): a closing quote that is escaped does not close the literal
    ('escaped-closing-quote', 'Table t {\n  a int [note: "abc\\"]\n}\n'),
    ('escaped-closing-quote', "Table t {\n  a int [note: 'abc\\']\n}\n"),
    ('escaped-closing-quote', 'Table t {\n  a int\n  Note: "abc\\"\n}\n'),
    ('escaped-closing-quote', "Table t {\n  a int [default: 'abc\\']\n}\n"),
    ('escaped-closing-quote', 'Project p {\n  k: "v\\"\n}\n'),
    ('escaped-closing-quote', "Note n {\n  'text\\'\n}\n"),
    ('escaped-closing-quote', 'Table t {\n  a int\n  indexes {\n    a [name: "n\\"]\n  }\n}\n'),
    ('stray-word-after-type', 'Table t {\n  id integer garbage [pk]\n}\n'),
    ('stray-word-after-type', 'Table t {\n  id integer garbage\n}\n'),
    ('stray-word-after-type', 'Table t {\n  id integer not valid here\n  b int\n}\n'),
    ('number-with-two-dots', 'Table t {\n  a int [default: 1.2.3]\n}\n'),
    ('number-with-two-dots', 'Table t {\n  a int [default: 1..2]\n}\n'),
    ('bare-project-value', 'Project p {\n  version: 2\n}\n'),
    ('bare-project-value', 'Project p {\n  public: true\n}\n'),
    ('second-settings-list', 'Table a {\n  x int\n}\nTable b {\n  y int\n}\nRef: a.x > b.y [delete: cascade] [update: restrict]\n'),
    ('second-settings-list', 'Table a {\n  x int\n}\nTable b {\n  y int\n}\nRef r {\n  a.x > b.y [delete: cascade] [update: restrict]\n}\n'),
    ('second-settings-list', 'Table a {\n  x int [pk] [unique]\n}\n'),
    ('second-settings-list', 'Table a [headercolor: #fff] [note: \'n\'] {\n  x int\n}\n'),
    ('second-settings-list', 'Table a {\n  x int\n  indexes {\n    x [unique] [name: \'n\']\n  }\n}\n'),
    ('second-settings-list', 'Enum e {\n  a [note: \'n\'] [note: \'m\']\n}\n'),
] + [
    # a qualified name has at most schema.table(.column); blanks do not glue a type to what follows it
    ('too-many-dotted-parts', 'Table t {\n  id int\n}\nTableGroup g {\n  public.t.x\n}\n'),
    ('too-many-dotted-parts', 'Table t {\n  id int\n}\nTableGroup g {\n  t.extra.junk\n}\n'),
    ('too-many-dotted-parts', 'Table t {\n  id int\n}\nTableGroup g {\n  a.b.c.d\n}\n'),
    ('too-many-dotted-parts', 'Table a.b.c {\n  id int\n}\n'),
    ('too-many-dotted-parts', 'Enum a.b.c {\n  x\n}\n'),
    ('too-many-dotted-parts', 'Table t {\n  id int\n  x int\n}\nRef: a.b.t.id > t.x\n'),
    ('too-many-dotted-parts', 'Table t {\n  id int\n  x int\n}\nRef: t.id > a.b.t.x\n'),
    ('too-many-dotted-parts', 'Table t {\n  id int [ref: > a.b.t.id]\n}\n'),
    ('blank-inside-type', 'Table t {\n  id int []\n}\n'),
    ('blank-inside-type', 'Table t {\n  id int [] [pk]\n}\n'),
    ('blank-inside-type', 'Table t {\n  name varchar (255)\n}\n'),
    ('blank-inside-type', 'Table t {\n  name varchar (255) [pk]\n}\n'),
    ('blank-inside-type', 'Table t {\n  kind crm . kind\n}\n'),
    ('blank-inside-type', 'Table t {\n  kind crm .kind\n}\n'),
    ('blank-inside-type', 'Table t {\n  kind crm. kind\n}\n'),
    ('blank-inside-type', 'Table t {\n  amount decimal(10,2) []\n}\n'),
] + [
    # a colour is # and 3 or 6 ASCII hex digits: digits of other scripts are not hex digits
    ('non-ascii-hex-colour', tmpl % col) for col in ('#١٢٣', '#１２３', '#١a٢b٣c', '#１２３４５６', '#a१c', '#٠٠٠٠٠٠', '#ａｂｃ')
    for tmpl in ('Table t [headercolor: %s] {\n  id int\n}\n', 'Table t {\n  id int\n}\nTableGroup g [color: %s] {\n  t\n}\n')
] + [
    # the number literal is digits[.digits]: nothing else is a number
    ('malformed-number', 'Table t {\n  a int [default: ' + lit + tail + ']\n}\n')
    for lit in ('12.', '1.', '.5', '1e5', '0x10', '1_000', '1,5', '1. 5', '12.e', '١٢', '1.2.', '5..')
    for tail in ('', ', not null')
] + [
    # bare names are ASCII letters, digits and underscores: a bare word with other letters / digits is not a name
    ('non-ascii-bare-word', doc_) for doc_ in (
        'Table commandé {\n  id int\n}\n', 'Table t {\n  naïve varchar\n}\n', 'Table t {\n  a chaîne\n}\n',
        'Enum e {\n  a\n  тест\n}\n', 'Enum kind٣ {\n  a\n}\n', 'Table t {\n  id int\n}\nTableGroup g {\n  t\n  日本\n}\n',
        'Table t {\n  id int [ref: > t.ïd]\n}\n', 'Table t as ü {\n  id int\n}\n', 'Project π {\n  k: \'v\'\n}\n',
        'Table t {\n  id int\n  indexes {\n    ïd\n  }\n}\n', 'Table s.té {\n  id int\n}\n', 'Table t {\n  id int [ключ: \'v\']\n}\n')
] + [
    # U+FEFF is a byte order mark only at the very start of the text; anywhere else it is a stray character
    ('stray-bom', doc_) for doc_ in (
        'Table t {\n  id int\n}\n\ufeff', 'Table t {\n  id int\n}\n\ufeffEnum e {\n  a\n}\n', 'Table t {\n  \ufeffid int\n}\n',
        'Ta\ufeffble t {\n  id int\n}\n', 'Table t\ufeff {\n  id int\n}\n', 'Table t {\n  id int [pk\ufeff]\n}\n',
        'Table t {\n  i\ufeffd int\n}\n', ' \ufeffTable t {\n  id int\n}\n', '\ufeff\ufeffTable t {\n  id int\n}\n',
        'Table t {\n  id int \ufeff\n}\n', 'Table t {\n  id \ufeff int\n}\n')
] + [
    # a bare word of a particular length and nothing else on the line: still a column without a type
    ('column-without-type', 'Table t {\n  ' + 'a' * n + '\n}\n') for n in (1, 63, 64, 127, 128, 129, 130, 255, 256, 257, 300, 1000, 5000)
] + [
    ('column-without-type', 'Table t {\n  id int\n  ' + 'b' * n + '\n  c int\n}\n') for n in (129, 256, 1025)
] + [
    ('missing-body', 'Table ' + 't' * n + '\n') for n in (129, 256, 300)
] + [
    ('unterminated-comment', 'Table t {\n  a int\n}\n' + c) for c in ('/*/', '/*/\n', '/*/ x', '/**', '/* *', '/*/ */ /*')
] + [
    ('unterminated-comment', c + '\nTable t {\n  a int\n}\n') for c in ('/*/', '/**', '/*/ x')
] + [
    ('unterminated-comment', 'Table t {\n  a int ' + c + '\n  b int\n}\n') for c in ('/*/', '/**')
]


def run_shard(spec, tier, seed, budget_s):
    sh = Shard(ID, budget_s)
    i = spec['shard']
    if i == 0:
        for fclass, text in HANDMADE:
            for props in (False, True):
                sh.case(text + str(props), nontrivial=True, sample={'fault': fclass, 'text': text})
                sh.count('obs.fault.' + fclass)
                db, err = parse(text, allow_properties=props)
                case = {'kind': 'reject-syntax', 'text': text, 'allow_properties': props}
                if err is None:
                    sh.violation('accept', f'accepted:{fclass}@handmade', f'{fclass}: {text!r} was accepted', case, {'fault': fclass})
                elif not rejected_as_syntax(err):
                    sh.violation('class', f'not-a-syntax-error:{fclass}@handmade:{type(err).__name__}', f'{err}', case, {'fault': fclass})
                else:
                    sh.count('obs.rejected_with_syntax_error')
    rng = random.Random(f'{seed}-c07-{i}')
    hosts = {'quick': 10, 'thorough': 200}[tier]
    per_host = {'quick': 45, 'thorough': 10**9}[tier]
    k = 0
    while k < hosts and not sh.out_of_time():
        k += 1
        props = rng.random() < 0.3
        doc = gen.random_doc(rng, rng.choice(['small', 'small', 'medium']), 'plain', props=props)
        sseed = f'{seed}-{i}-{k}'
        text, slots, w = surface.render_with_slots(doc, sseed, KNOBS, want_writer=True)
        if '*/' in text or '/*' in text:
            sh.count('obs.host_has_block_comment')
            continue
        db, err = parse(text, allow_properties=props)
        if err is not None:
            sh.count('obs.host_rejected')
            continue
        sh.count('obs.hosts')
        sh.count('obs.slots', len(slots))
        cases = [(n, kind, fc, tx) for n, kind in enumerate(slots) for fc, tx in payloads(kind, props)]
        if len(cases) > per_host:
            # stratified sample: at least one case of every (fault class, position class) seen in this host
            rng.shuffle(cases)
            seen, pick, rest = set(), [], []
            for c in cases:
                key = (c[2], position_class(c[1]))
                if key not in seen:
                    seen.add(key)
                    pick.append(c)
                else:
                    rest.append(c)
            cases = (pick + rest)[:max(per_host, len(pick))]
        for n, kind, fc, tx in cases:
            if sh.out_of_time():
                break
            one(sh, doc, sseed, n, kind, fc, tx, props)
        unterminated_string(sh, w.last_lit, text, props)
    return sh


def conclusive(agg, tier):
    c = agg['counters']
    need = ['stray-symbol', 'lone-quote', 'lone-bracket', 'stray-word', 'unterminated-comment', 'bracket-dropped',
            'bracket-doubled', 'unknown-setting', 'empty-settings', 'double-comma', 'trailing-comma', 'unknown-index-type',
            'unknown-ref-operator', 'unknown-action', 'malformed-colour', 'column-without-type', 'unterminated-string', 'second-settings-list']
    out = [f'fault kind {f} was never planted' for f in need if not c.get('obs.fault.' + f)]
    for p in ('own', 'eol', 'gap', 'tok', 'settings', 'lit'):
        if not c.get('obs.position.' + p):
            out.append(f'position class {p} never used')
    if c.get('obs.host_rejected', 0) > c.get('obs.hosts', 0):
        out.append('most hosts were rejected by the control parse')
    if not c.get('obs.leak_probes'):
        out.append('leak probe never evaluated')
    return out


def replay(v):
    sh = Shard(ID)
    case = v['case']
    if case.get('kind') == 'leak':
        base, e0 = parse(case['probe'])
        parse(case['rejected'])
        after, e1 = parse(case['probe'])
        from pv import walk
        if e0 is None and (e1 is not None or walk.content(after) != walk.content(base)):
            sh.violation('leak', v['klass'], 'probe document still differs after the rejected document', case)
        return sh.violations
    db, err = parse(case['text'], allow_properties=case.get('allow_properties', False))
    if err is None:
        sh.violation('accept', v['klass'], 'document is (still) accepted', case, v.get('features'))
    elif not rejected_as_syntax(err):
        sh.violation('class', v['klass'], f'raises {type(err).__name__}: {err}', case, v.get('features'))
    return sh.violations
