"""C16 — Element and database renderings agree and use the configured renderers."""
import random

from pv import am, gen, surface, walk, monitors, apibuild
from pv.common import parse
from pv.result import Shard

ID = 'C16'
MANIFEST = {
    'text': ('For generated databases (parsed with renderer arguments, and API-built with Database(sql_renderer=, dbml_renderer=)): '
             'recording renderer subclasses log every render() call - each attached table, enum, reference, group, project, sticky '
             'note and every column must be routed through the configured class, the database text through its render_db; partial '
             'custom renderers (random subset of handlers) must give \'\' for unhandled types instead of raising; detached '
             'elements must render exactly like the default renderers. With defaults the text of every table / enum / '
             'non-inline reference / group / sticky note / project must occur exactly once, verbatim, in the database text. '
             'Purity: all renderings are evaluated in shuffled order three times while a __setattr__ tracer watches every '
             'pre-existing model object; any write, fingerprint change or changed rendering is a violation.'),
    'note': 'the tracer distinguishes pre-existing objects (by id, held alive) from temporaries a renderer may legitimately create (e.g. the join table of a <> reference)',
    'technique': 'runtime monitoring: recording renderers (call log), substring-count oracle on unique tokens, write tracer + before/after fingerprints',
}
LEVEL = 'exploration'
BUDGET = {'quick': 60, 'thorough': 360}
RULE = ('(database, renderer configuration in {default, recording subclasses, partial renderers via constructor, via parser '
        'arguments}, evaluation order); a case = one database under one configuration with all element renderings evaluated '
        '3x in shuffled order; distinct by dbml hash + configuration; non-trivial = database has >= 2 element kinds')
ASSUMPTIONS = ['unique name tokens (containment count is meaningful)', 'CPython trusted']


def top_elements(db):
    out = [('table', t) for t in db.tables] + [('enum', e) for e in db.enums] + [('ref', r) for r in db.refs] + \
          [('group', g) for g in db.table_groups] + [('sticky', s) for s in db.sticky_notes]
    if db.project is not None:
        out.append(('project', db.project))
    return out


def all_renderings(db):
    """list of (key, thunk)"""
    out = [('db.sql', lambda: db.sql), ('db.dbml', lambda: db.dbml)]
    for n, (kind, el) in enumerate(top_elements(db)):
        if hasattr(type(el), 'sql'):
            out.append((f'{kind}{n}.sql', lambda el=el: el.sql))
        out.append((f'{kind}{n}.dbml', lambda el=el: el.dbml))
    for ti, t in enumerate(db.tables):
        for ci, c in enumerate(t.columns):
            out.append((f't{ti}c{ci}.sql', lambda c=c: c.sql))
            out.append((f't{ti}c{ci}.dbml', lambda c=c: c.dbml))
            out.append((f't{ti}c{ci}.note.sql', lambda c=c: c.note.sql))
        for ii, ix in enumerate(t.indexes):
            out.append((f't{ti}i{ii}.sql', lambda ix=ix: ix.sql))
            out.append((f't{ti}i{ii}.dbml', lambda ix=ix: ix.dbml))
        out.append((f't{ti}.note.sql', lambda t=t: t.note.sql))
        out.append((f't{ti}.note.dbml', lambda t=t: t.note.dbml))
    return out


def check_default(sh, db, doc, rng, tracer, origin):
    case = {'kind': 'render', 'origin': origin, 'case_seed': getattr(sh, 'case_seed', None)}
    before = walk.content(db)          # snapshot BEFORE anything is rendered
    pre = walk.identity(db)            # id -> object (keeps them alive)
    tracer.events.clear()
    tracer.phase = 'render'
    try:
        dbml0 = db.dbml
        sql = db.sql
        dbml = db.dbml
    except Exception as e:  # noqa
        tracer.phase = 'idle'
        sh.count('obs.default_render_raised')
        return
    case['dbml'] = dbml
    if dbml0 != dbml:
        sh.violation('pure', 'purity:rendering-changed:db.dbml-after-db.sql', 'db.dbml differs before and after evaluating db.sql', case)
    # ---- containment: exactly once, verbatim
    for kind, el in top_elements(db):
        if kind == 'ref' and el.inline:
            continue
        try:
            d = el.dbml
            n = dbml.count(d)
            sh.count('obs.containment_checks')
            same = sum(1 for k2, e2 in top_elements(db) if k2 == kind and not (k2 == 'ref' and e2.inline) and e2.dbml == d)
            if same > 1 and n == same:
                sh.count('obs.containment_identical_twins')     # e.g. two sticky notes with the same name and text: once EACH
                continue
            if n != 1 or not d:
                sh.violation('contain', f'containment:dbml:{kind}:{"absent" if n == 0 else "repeated"}',
                             f'{kind} dbml occurs {n} times in db.dbml: {d[:200]!r}', case)
            if kind in ('table', 'enum', 'ref'):
                s_ = el.sql
                n = sql.count(s_)
                sh.count('obs.containment_checks')
                if n != 1 or not s_:
                    sh.violation('contain', f'containment:sql:{kind}:{"absent" if n == 0 else "repeated"}',
                                 f'{kind} sql occurs {n} times in db.sql: {s_[:200]!r}', case)
        except Exception as e:  # noqa
            sh.violation('contain', f'containment:raises:{kind}:{type(e).__name__}', str(e), case)
    # ---- purity
    rs = all_renderings(db)
    first = {'db.dbml': dbml0, 'db.sql': sql}
    tracer.phase = 'render'
    for rep in range(3):
        rng.shuffle(rs)
        for key, th in rs:
            try:
                v = th()
            except Exception as e:  # noqa
                v = ('EXC', type(e).__name__)
            sh.count('obs.renderings_evaluated')
            if key in first and first[key] != v:
                sh.violation('pure', f'purity:rendering-changed:{key.split(".")[-1]}',
                             f'{key} changed between evaluations (repetition {rep})', case)
            first.setdefault(key, v)
    tracer.phase = 'idle'
    hits = [(c, a) for ph, c, a, oid in tracer.events if ph == 'render' and oid in pre]
    sh.count('obs.setattr_events_on_temporaries', len([1 for ph, c, a, oid in tracer.events if ph == 'render' and oid not in pre]))
    if hits:
        sh.violation('pure', f'purity:write:{hits[0][0]}.{hits[0][1]}', f'{len(hits)} attribute writes on pre-existing objects while rendering: {sorted(set(hits))[:5]}', case)
    after = walk.content(db)
    if after != before:
        sh.violation('pure', 'purity:model-changed', '; '.join(am.diff(before, after)[:3]), case)
    pre2 = walk.identity(db)
    if set(pre2) != set(pre):
        sh.violation('pure', 'purity:object-graph-changed', f'{len(set(pre2) - set(pre))} new / {len(set(pre) - set(pre2))} lost reachable objects', case)
    sh.count('obs.purity_runs')


def recording_classes(log):
    from pydbml.renderer.sql.default import DefaultSQLRenderer
    from pydbml.renderer.dbml.default import DefaultDBMLRenderer

    class RecSQL(DefaultSQLRenderer):
        @classmethod
        def render(cls, model):
            log.append(('sql', id(model)))
            return super().render(model)

        @classmethod
        def render_db(cls, db):
            log.append(('sql_db', id(db)))
            return super().render_db(db)

    class RecDBML(DefaultDBMLRenderer):
        @classmethod
        def render(cls, model):
            log.append(('dbml', id(model)))
            return super().render(model)

        @classmethod
        def render_db(cls, db):
            log.append(('dbml_db', id(db)))
            return super().render_db(db)
    return RecSQL, RecDBML


def partial_classes(rng, log):
    """two partial renderers (SQL side, DBML side), each derived either from BaseRenderer or from the matching
    default renderer, with their OWN incomplete handler table -> (sql class, dbml class, handled sql types, handled dbml types)"""
    from pydbml.renderer.base import BaseRenderer
    from pydbml.renderer.sql.default import DefaultSQLRenderer
    from pydbml.renderer.dbml.default import DefaultDBMLRenderer
    import pydbml.classes as C
    kinds = [C.Table, C.Column, C.Enum, C.EnumItem, C.Reference, C.TableGroup, C.Project, C.StickyNote, C.Index, C.Note, C.Expression]

    def make(base, tag):
        handled = set(rng.sample(kinds, rng.randint(0, len(kinds) - 1)))
        # either an empty handler table of its own, or (documented way to customise a default renderer) a COPY of the
        # default table in which some handlers are then replaced
        copied = base is not BaseRenderer and rng.random() < 0.5

        class Part(base):
            model_renderers = dict(base.model_renderers) if copied else {}
            pv_copied_from = base if copied else None

            @classmethod
            def render_db(cls, db):
                return 'PARTDB'
        for k in handled:
            Part.renderer_for(k)(lambda model, k=k: f'<{tag}:{k.__name__}>')
        return Part, handled
    ps, hs = make(rng.choice([BaseRenderer, DefaultSQLRenderer]), 'sql')
    pd, hd = make(rng.choice([BaseRenderer, DefaultDBMLRenderer]), 'dbml')
    return ps, pd, hs, hd


def check_configured(sh, doc, text, rng, via):
    log = []
    RecSQL, RecDBML = recording_classes(log)
    if via == 'parser':
        db, err = parse(text, allow_properties=doc.allow_properties, sql_renderer=RecSQL, dbml_renderer=RecDBML)
        if err is not None:
            sh.count('obs.source_rejected')
            return
    elif via == 'parser-path':
        import os
        import tempfile
        from pathlib import Path
        from pydbml import PyDBML
        fd, pth = tempfile.mkstemp(suffix='.dbml', dir=os.environ.get('PV_SCRATCH') or None)
        try:
            with os.fdopen(fd, 'w', encoding='utf8') as f:
                f.write(text)
            try:
                if rng.random() < 0.5:
                    db = PyDBML(Path(pth), allow_properties=doc.allow_properties, sql_renderer=RecSQL, dbml_renderer=RecDBML)
                else:
                    with open(pth, encoding='utf8') as fh:
                        db = PyDBML(fh, allow_properties=doc.allow_properties, sql_renderer=RecSQL, dbml_renderer=RecDBML)
            except Exception:
                sh.count('obs.source_rejected')
                return
        finally:
            os.unlink(pth)
    else:
        db = apibuild.build(doc, sql_renderer=RecSQL, dbml_renderer=RecDBML)
    case = {'kind': 'configured', 'via': via, 'text': text, 'case_seed': getattr(sh, 'case_seed', None)}
    if db.sql_renderer is not RecSQL or db.dbml_renderer is not RecDBML:
        sh.violation('route', f'configured:not-stored:{via}', 'renderer classes not stored on the database', case)
        return
    for what, tag in (('sql', 'sql_db'), ('dbml', 'dbml_db')):
        log.clear()
        try:
            getattr(db, what)
        except Exception as e:  # noqa
            sh.count('obs.configured_render_raised')
            continue
        if (tag, id(db)) not in log:
            sh.violation('route', f'configured:db.{what}-not-routed:{via}', f'db.{what} did not call the configured render_db', case)
    els = top_elements(db) + [('column', c) for t in db.tables for c in t.columns]
    for kind, el in els:
        for what in ('sql', 'dbml'):
            if not hasattr(type(el), what):
                continue
            log.clear()
            try:
                getattr(el, what)
            except Exception:
                continue
            sh.count('obs.routing_checks')
            if (what, id(el)) not in log:
                sh.violation('route', f'configured:{kind}.{what}-not-routed:{via}',
                             f'{kind}.{what} was not rendered through the configured class (log: {len(log)} calls)', case)
    # the project is replaced by itself (add of the current project): it stays attached and routed
    if db.project is not None:
        pr = db.project
        try:
            db.add(pr)
            ok_ = True
        except Exception:  # noqa
            ok_ = False
        if ok_ and db.project is pr:
            log.clear()
            try:
                pr.dbml
                sh.count('obs.routing_checks_after_readd')
                if ('dbml', id(pr)) not in log:
                    sh.violation('route', f'configured:project.dbml-not-routed-after-re-add:{via}', 'db.add(db.project): the project no longer renders through the configured class', case)
            except Exception:  # noqa
                pass
    # partial renderers
    plog = []
    PartS, PartD, hs, hd = partial_classes(rng, plog)
    if via in ('parser', 'parser-path'):
        db2, err = parse(text, allow_properties=doc.allow_properties, sql_renderer=PartS, dbml_renderer=PartD)
    else:
        db2 = apibuild.build(doc, sql_renderer=PartS, dbml_renderer=PartD)
    els = top_elements(db2) + [('column', c) for t in db2.tables for c in t.columns]
    for kind, el in els:
        for what, handled in (('sql', hs), ('dbml', hd)):
            if not hasattr(type(el), what):
                continue
            try:
                got = getattr(el, what)
            except Exception as e:  # noqa
                sh.violation('partial', f'partial:raises:{kind}.{what}:{type(e).__name__}', f'{e}', case)
                continue
            want = f'<{what}:{type(el).__name__}>' if type(el) in handled else ''
            cls_ = PartS if what == 'sql' else PartD
            if type(el) not in handled and cls_.pv_copied_from is not None:
                try:
                    want = cls_.pv_copied_from.render(el)      # handler inherited from the copied default table
                except Exception:  # noqa
                    continue
                sh.count('obs.partial_checks_copied_table')
            sh.count('obs.partial_checks')
            if got != want:
                sh.violation('partial', f'partial:wrong-text:{kind}.{what}', f'got {got[:80]!r}, expected {want!r}', case)
    # the handler table is a plain class attribute: it is edited directly AFTER the first renderings (entry replaced,
    # entry removed, whole table rebound); what the elements render follows the table as it is now
    for what, cls_, handled in (('sql', PartS, hs), ('dbml', PartD, hd)):
        how = rng.choice(['assign', 'delete', 'rebind'])
        kinds_here = sorted({type(el) for _k, el in els if hasattr(type(el), what)}, key=lambda c: c.__name__)
        if not kinds_here:
            continue
        kx = rng.choice(kinds_here)
        if how == 'assign':
            cls_.model_renderers[kx] = (lambda model, what=what: f'<{what}:edited>')
            wantx = f'<{what}:edited>'
        elif how == 'delete':
            cls_.model_renderers.pop(kx, None)
            wantx = ''
        else:
            cls_.model_renderers = {kx: (lambda model, what=what: f'<{what}:rebound>')}
            wantx = f'<{what}:rebound>'
        for kind, el in els:
            if type(el) is not kx:
                continue
            try:
                got = getattr(el, what)
            except Exception as e:  # noqa
                sh.violation('partial', f'partial:raises-after-table-edit:{kind}.{what}:{type(e).__name__}', f'{e}', case)
                continue
            sh.count('obs.partial_checks_after_table_edit')
            if got != wantx:
                sh.violation('partial', f'partial:stale-handler-after-{how}:{kind}.{what}', f'handler table edited ({how}) after first use: got {got[:60]!r}, expected {wantx!r}', case)
    try:
        if db2.sql != 'PARTDB' or db2.dbml != 'PARTDB':
            sh.violation('partial', 'partial:db-not-routed', 'database text not produced by the partial renderer', case)
    except Exception as e:  # noqa
        sh.violation('partial', f'partial:db-raises:{type(e).__name__}', str(e), case)


def check_twin_edit(sh, doc, rng):
    """'rendering has no side effects ... leaves later renderings unchanged': one database is rendered, its twin is not; the
    same in-place edit is applied to both; both renderings of the two must then be identical"""
    db, twin = apibuild.build(doc, api_inline=True), apibuild.build(doc, api_inline=True)
    tb, tw = list(db.tables), list(twin.tables)        # pairs taken now (positions in db.tables are not trusted after a rendering)
    try:
        db.sql, db.dbml
        for t in db.tables:
            t.sql, t.dbml
    except Exception:  # noqa
        return
    edits = []
    for k_, (r, r2) in enumerate(zip(db.refs, twin.refs)):
        if rng.random() < 0.5 and r.type in ('>', '<') and r.inline:
            r.type = r2.type = '<' if r.type == '>' else '>'
            edits.append('flip-kind')
        elif rng.random() < 0.3 and len(r.col1) == 1 and len(db.tables) >= 3:
            cands = [(ti, ci) for ti, t in enumerate(tb) if t is not r.col1[0].table and t is not r.col2[0].table for ci in range(len(t.columns))]
            if cands:
                ti, ci = rng.choice(cands)
                n1 = [tb[ti].columns[ci]]
                if not any(q is not r and q.type == r.type and list(q.col1) == n1 and list(q.col2) == list(r.col2) for q in db.refs):
                    r.col1, r2.col1 = n1, [tw[ti].columns[ci]]
                    edits.append('reassign-endpoint')
    if db.tables and rng.random() < 0.5:
        k_ = rng.randrange(len(tb))
        tb[k_].name = tw[k_].name = tb[k_].name + 'Twq'
        edits.append('rename')
    if not edits:
        return
    for what in ('sql', 'dbml'):
        outs = []
        for d_ in (db, twin):
            try:
                outs.append(getattr(d_, what))
            except Exception as e:  # noqa
                outs.append(('EXC', type(e).__name__))
        sh.count('obs.twin_edit_checks')
        if outs[0] != outs[1]:
            sh.violation('pure', f'purity:earlier-rendering-changes-later-one:db.{what}', f'after {edits}: the database that had been rendered before the edit renders differently from its never-rendered twin',
                         {'kind': 'twin', 'case_seed': getattr(sh, 'case_seed', None)})


def check_detached(sh, doc, rng):
    """elements that are not attached to a database use the default renderers"""
    from pydbml.renderer.sql.default import DefaultSQLRenderer
    from pydbml.renderer.dbml.default import DefaultDBMLRenderer
    log = []
    RecSQL, RecDBML = recording_classes(log)
    db = apibuild.build(doc, sql_renderer=RecSQL, dbml_renderer=RecDBML)
    # a reference deleted by handing in an EQUAL reference: the one that left db.refs is the detached one
    from pydbml.classes import Reference
    for real in [r for r in db.refs][:3]:
        try:
            twin = Reference(real.type, list(real.col1), list(real.col2), name=real.name, comment=real.comment, on_update=real.on_update,
                             on_delete=real.on_delete, inline=real.inline)
            if twin != real or db.refs.index(twin) != db.refs.index(real):
                continue
            db.delete(twin)
        except Exception:  # noqa
            continue
        if any(x is real for x in db.refs):
            continue
        for what, R in (('sql', DefaultSQLRenderer), ('dbml', DefaultDBMLRenderer)):
            log.clear()
            try:
                got = getattr(real, what)
                want = R.render(real)
            except Exception:  # noqa
                continue
            sh.count('obs.detached_checks')
            sh.count('obs.detached_via_equal_copy')
            if log or got != want or real.database is not None:
                sh.violation('detached', f'detached:ref-deleted-via-equal-copy.{what}', f'the reference that left db.refs still renders through the database renderers ({len(log)} calls) / keeps its database link',
                             {'kind': 'detached', 'case_seed': getattr(sh, 'case_seed', None)})
    # an element whose add() was REFUSED stays detached (default renderers, no database link)
    from pydbml.classes import Enum, TableGroup, Table, Column
    refused = []
    for e in db.enums[:2]:
        refused.append(('enum', Enum(e.name, ['other_item'], schema=e.schema)))
    for g in db.table_groups[:1]:
        refused.append(('group', TableGroup(g.name, [])))
    for t in db.tables[:1]:
        refused.append(('table', Table(t.name, schema=t.schema, columns=[Column('rc', 'int')])))
    for kind, el in refused:
        try:
            db.add(el)
            continue            # (accepted: nothing to check here)
        except Exception:  # noqa
            pass
        for what, R in (('sql', DefaultSQLRenderer), ('dbml', DefaultDBMLRenderer)):
            if not hasattr(type(el), what):
                continue
            log.clear()
            try:
                got = getattr(el, what)
                want = R.render(el)
            except Exception:  # noqa
                continue
            sh.count('obs.detached_checks')
            sh.count('obs.refused_elements')
            if log or got != want or getattr(el, 'database', None) is not None:
                sh.violation('detached', f'detached:refused-{kind}.{what}', f'an element whose add() was refused renders through the database renderers ({len(log)} calls) / has a database link',
                             {'kind': 'detached', 'case_seed': getattr(sh, 'case_seed', None)})
    victims = [('enum', e) for e in db.enums] + [('group', g) for g in db.table_groups]
    if db.project is not None:
        victims.append(('project', db.project))
    for kind, el in victims:
        db.delete(el)
        for what, R in (('sql', DefaultSQLRenderer), ('dbml', DefaultDBMLRenderer)):
            if not hasattr(type(el), what):
                continue
            log.clear()
            try:
                got = getattr(el, what)
                want = R.render(el)
            except Exception:
                continue
            sh.count('obs.detached_checks')
            if log or got != want:
                sh.violation('detached', f'detached:{kind}.{what}', f'detached element still routed through the database renderers ({len(log)} calls) or differs from default', {'kind': 'detached', 'case_seed': getattr(sh, 'case_seed', None)})


def one_case(sh, case_seed, tracer):
    rng = random.Random(case_seed)
    sh.case_seed = case_seed
    doc = gen.random_doc(rng, rng.choice(['small', 'small', 'medium']), 'plain', flavours=('tok',), props=rng.random() < 0.3)
    shape = rng.choice(['full', 'full', 'full', 'notables', 'emptysticky'])
    if shape == 'notables':
        # a database without tables: only enums, sticky notes and a project
        doc.tables, doc.refs, doc.groups = [], [], []
        if not doc.enums:
            doc.enums.append(am.Enum('public', 'eonlyq', [am.EnumItem('i1q')]))
        if doc.project is None:
            doc.project = am.Project('ponlyq', [('k1q', 'v1q')])
        doc.stickies.append(am.Sticky('sonlyq', 'text onlyq'))
        doc.default_order()
    elif shape == 'emptysticky':
        doc.stickies.append(am.Sticky('semptyq', ''))
        doc.order.append(('s', len(doc.stickies) - 1))
    sh.count('obs.shape.' + shape)
    text = surface.render(doc, case_seed)
    feats = gen.features(doc)
    for origin in ('parsed', 'api'):
        if origin == 'parsed':
            db, err = parse(text, allow_properties=doc.allow_properties)
            if err is not None:
                sh.count('obs.source_rejected')
                continue
        else:
            db = apibuild.build(doc)
        sh.case([text, origin, 'default'], nontrivial=len(feats) >= 2, sample={'origin': origin, 'config': 'default', 'text': text[:500]})
        check_default(sh, db, doc, rng, tracer, origin)
    for via in ('parser', 'constructor', 'parser-path'):
        sh.case([text, via, 'configured'], nontrivial=len(feats) >= 2)
        check_configured(sh, doc, text, rng, via)
    # after a table was deleted (references are not cascaded) element and database texts must still agree
    if len(doc.tables) > 1:
        dbd = apibuild.build(doc)
        dbd.delete(rng.choice(dbd.tables))
        sh.case([text, 'afterdelete'], nontrivial=True)
        sh.count('obs.shape.afterdelete')
        try:
            dbd.sql, dbd.dbml
            renders = True
        except Exception:
            renders = False         # a dangling reference may legitimately refuse to render (C17)
        if renders:
            check_default(sh, dbd, doc, rng, tracer, 'api-afterdelete')
    check_detached(sh, doc, rng)
    check_twin_edit(sh, doc, rng)


def plan(tier, seed):
    return [{'shard': i, 'of': 16} for i in range(16)]


def run_shard(spec, tier, seed, budget_s):
    sh = Shard(ID, budget_s)
    i = spec['shard']
    rng = random.Random(f'{seed}-c16-{i}')
    k = 0
    target = {'quick': 100, 'thorough': 1500}[tier]
    with monitors.WriteTracer(keep_ids=True) as tracer:
        while k < target and not sh.out_of_time():
            k += 1
            one_case(sh, f'{seed}-c16-{i}-{k}', tracer)
    return sh


def conclusive(agg, tier):
    c = agg['counters']
    return [f'{k} is zero' for k in ('obs.shape.notables', 'obs.shape.emptysticky', 'obs.containment_checks', 'obs.purity_runs', 'obs.renderings_evaluated', 'obs.routing_checks',
                                     'obs.partial_checks', 'obs.detached_checks') if not c.get(k)]


def replay(v):
    sh = Shard(ID)
    cs = (v.get('case') or {}).get('case_seed')
    if not cs:
        return [dict(v)]
    with monitors.WriteTracer(keep_ids=True) as tracer:
        one_case(sh, cs, tracer)
    return sh.violations
