"""C10 — Renderings always reflect the current state of the model after edits.

Oracle: after every edit step, .dbml / .sql of the database and of every
element must equal those of a database freshly rebuilt through the public
constructors from the current attribute values (pv.clone), and no output may
still contain the unique old token of anything that was renamed."""
import random
import re

from pv import am, gen, surface, monitors, apibuild
from pv.clone import clone
from pv.common import parse
from pv.result import Shard

ID = 'C10'
MANIFEST = {
    'text': ('Starts from parsed and API-built generated databases, renders everything once (to warm any cache a change might '
             'introduce), then applies random edit histories over the statement\'s edit list (rename table / schema / column / '
             'enum / enum item, change type incl. enum objects, flags, defaults, notes in place and by replacement, aliases, '
             'reference kind / inline-ness / name / actions, add column / index / enum item, remove index, group / project / '
             'sticky edits) rendering after EVERY step; compares db and per-element .dbml/.sql with a clone rebuilt through the '
             'public constructors and scans all output for stale unique tokens. A __setattr__ write tracer shows which '
             '(class, attribute) writes the edits really performed.'),
    'note': 'the clone oracle reads the live objects through public attributes; equality of exception classes is required when a rendering raises on both sides; every renamed thing carries a substring-free unique token so the staleness scan is sound',
    'technique': 'runtime monitoring: edit histories with differential oracle against a freshly rebuilt clone + unique-token staleness scan + write tracer',
}
LEVEL = 'exploration'
BUDGET = {'quick': 60, 'thorough': 400}
RULE = ('(start database [parsed | api], edit history of length 1..12); a case = one history, all steps compared; distinct by '
        'hash of (start dbml, edit list); non-trivial = at least one edit changed a rendering')
ASSUMPTIONS = ['pv/clone.py rebuilds faithfully through the public constructors', 'CPython/pyparsing trusted']


def renderings(db):
    """all observable renderings: name -> text or ('EXC', class name)"""
    out = {}

    def r(key, f):
        try:
            out[key] = f()
        except Exception as e:  # noqa
            out[key] = ('EXC', type(e).__name__)
    r('db.dbml', lambda: db.dbml)
    r('db.sql', lambda: db.sql)
    for i, t in enumerate(db.tables):
        r(f'table[{i}].dbml', lambda t=t: t.dbml)
        r(f'table[{i}].sql', lambda t=t: t.sql)
        for j, c in enumerate(t.columns):
            r(f'table[{i}].col[{j}].dbml', lambda c=c: c.dbml)
            r(f'table[{i}].col[{j}].sql', lambda c=c: c.sql)
        for j, ix in enumerate(t.indexes):
            r(f'table[{i}].index[{j}].dbml', lambda ix=ix: ix.dbml)
            r(f'table[{i}].index[{j}].sql', lambda ix=ix: ix.sql)
    for i, e in enumerate(db.enums):
        r(f'enum[{i}].dbml', lambda e=e: e.dbml)
        r(f'enum[{i}].sql', lambda e=e: e.sql)
    for i, x in enumerate(db.refs):
        r(f'ref[{i}].dbml', lambda x=x: x.dbml)
        r(f'ref[{i}].sql', lambda x=x: x.sql)
    for i, g in enumerate(db.table_groups):
        r(f'group[{i}].dbml', lambda g=g: g.dbml)
    for i, s in enumerate(db.sticky_notes):
        r(f'sticky[{i}].dbml', lambda s=s: s.dbml)
    if db.project is not None:
        r('project.dbml', lambda: db.project.dbml)
    return out


_DECOY = []


def _decoy():
    if not _DECOY:
        from pydbml import PyDBML
        _DECOY.append(PyDBML('Table decoy_a {\n  id int [pk]\n  b_id int [ref: > decoy_b.id]\n}\nTable decoy_b {\n  id int [pk]\n}\n'
                             'Enum decoy_e {\n  x\n}\nRef: decoy_a.id <> decoy_b.id\n'))
    return _DECOY[0]


class Editor:
    def __init__(self, rng, db):
        self.rng = rng
        self.db = db
        self.n = 0
        self.stale = []     # old unique tokens that must not show up any more
        self.lost = []      # assignments that did not take effect
        self.must = {}      # (id(obj), attr) -> unique token that has to show up in db.dbml from now on
        self.keep = []      # keeps edited objects alive so ids stay unique
        from pydbml.classes import EnumItem as _EI
        self.prebuilt = [_EI(f'pbE{k_}q') for k_ in range(4)]      # built before any rendering, added later
        self.text_copies = set()
        self.shared = set() # ids of enum items that belong to two enums (see add_derived_enum)
        self.once = []      # tokens written into ONE free-text slot in place: they may show up in db.dbml at most once

    def tok(self, p='zz'):
        self.n += 1
        return f'{p}E{self.n}q'

    def expect_token(self, obj, attr, tokn):
        self.must[(id(obj), attr)] = tokn
        self.keep.append(obj)

    def set(self, obj, attr, val):
        """assignment through the public attribute + read-back: what was assigned is the final content"""
        self.must.pop((id(obj), attr), None)                 # a later assignment supersedes an expected token
        if attr == 'text' and getattr(obj, 'parent', None) is not None:
            self.must.pop((id(obj.parent), 'note'), None)
        setattr(obj, attr, val)
        if attr == 'text' and isinstance(val, str) and re.search(r'E\d+q', val):
            self.once.append(val)
        got = getattr(obj, attr)
        if not (got is val or (type(got) is type(val) and got == val)):
            self.lost.append(f'{type(obj).__name__}.{attr} = {val!r} reads back as {got!r}')

    def add_twin_index(self, t):
        """a second index that differs from an existing one only in its comment"""
        from pydbml.classes import Index, Expression
        src = self.rng.choice(t.indexes)
        if src.note is not None and src.note.text in self.once:
            self.once.remove(src.note.text)
        for x in src.subjects:      # the twin repeats the source's texts on purpose
            if isinstance(x, Expression) and x.text in self.once:
                self.once.remove(x.text)
        # expression subjects are copied: sharing one Expression object between two indexes would be the editor's own aliasing
        nix = Index([Expression(x.text) if isinstance(x, Expression) else x for x in src.subjects], name=src.name, unique=src.unique, type=src.type, pk=src.pk,
                    note=src.note.text if src.note else None, comment=self.tok('twin index '))
        self.add_checked(t.add_index, lambda: t.indexes, nix)

    def remove_index_by_object(self, t):
        """delete_index(obj): afterwards exactly that object is gone, the others are still there in order"""
        victim = t.indexes[-1] if self.rng.random() < 0.6 else self.rng.choice(t.indexes)
        before = list(t.indexes)
        t.delete_index(victim)
        def key(ix):      # structural equality of indexes as documented (every attribute but the owner), computed here
            return (tuple(id(x) if not isinstance(x, str) and not hasattr(x, 'text') else getattr(x, 'text', x) for x in ix.subjects),
                    ix.name, ix.unique, ix.type, ix.pk, ix.note.text if ix.note else None, ix.comment)
        first_equal = next(x for x in before if key(x) == key(victim))
        want = [x for x in before if x is not first_equal]
        got = list(t.indexes)
        if len(got) != len(want) or any(a is not b for a, b in zip(got, want)):
            self.lost.append(f'delete_index(obj): indexes afterwards {[getattr(x, "comment", None) for x in got]}, expected the list without '
                             f'the given object {[getattr(x, "comment", None) for x in want]}')

    def writeback(self, owner):
        """take the owner's note, edit it, assign the same object back"""
        n = owner.note
        n.text = self.tok('wb note ')
        self.must.pop((id(owner), 'note'), None)
        owner.note = n
        if owner.note is not n:
            self.lost.append(f'{type(owner).__name__}.note = <its own note object> reads back as another object')
        self.expect_token(owner, 'note', n.text)
        if id(owner) not in self.shared:
            self.once.append(n.text)

    def add_checked(self, adder, container, obj):
        """an element handed to add_* is, by identity, part of its container afterwards"""
        adder(obj)
        if not any(x is obj for x in container()):
            self.lost.append(f'{getattr(adder, "__name__", "add")}({type(obj).__name__}): the object is not in its container afterwards')

    def add_then_configure(self, t):
        """the add-then-configure idiom: a bare index is added first (it may look like an existing one at that moment) and
        given its flags and name afterwards"""
        from pydbml.classes import Index
        col = self.rng.choice(t.columns)
        ix = Index([col])
        self.add_checked(t.add_index, lambda: t.indexes, ix)
        ix.unique = True
        ix.name = self.tok('cfgix')

    def type_like_enum(self, c):
        """the column type becomes a TEXT spelled like the name of an enum of the database (it stays a text)"""
        if not self.db.enums:
            raise LookupError('no enum')
        name = self.rng.choice(self.db.enums).name
        self.text_copies.add(name)          # from now on this token has a second, independent owner
        self.set(c, 'type', name)

    def note_inplace(self, owner):
        """the text of the owner's note is written in place, whether or not the owner had a note text before"""
        n = owner.note
        newt = self.tok('ip note ')
        n.text = newt
        self.must.pop((id(owner), 'note'), None)
        if owner.note.text != newt:
            self.lost.append(f'{type(owner).__name__}.note.text = {newt!r} reads back as {owner.note.text!r}')
        if type(owner).__name__ != 'Index':       # (an index may be removed later, and its texts with it)
            self.expect_token(owner, 'note', newt)
        if id(owner) not in self.shared:
            self.once.append(newt)

    def add_prebuilt_item(self, e):
        """an EnumItem object that existed before the last rendering is added (no attribute of any model object is assigned)"""
        if not self.prebuilt:
            raise LookupError('no prebuilt item left')
        it = self.prebuilt.pop()
        e.add_item(it)
        self.once.append(it.name)
        self.expect_token(it, 'name', it.name)

    def subjects_append(self, t, ix):
        """the subject list of an index is extended in place"""
        cands = [c for c in t.columns if c not in ix.subjects]
        if not cands or ix.pk:
            raise LookupError('nothing to append')
        ix.subjects.append(self.rng.choice(cands))

    def repoint(self, r, in_list=False):
        """one endpoint of a reference is assigned anew: a column of another table (in_list: the item of the existing
        column list is replaced, no attribute is assigned)"""
        side = self.rng.choice(['col1', 'col2'])
        cur = getattr(r, side)
        if len(cur) != 1:
            raise LookupError('composite')
        other = (r.col2 if side == 'col1' else r.col1)[0].table
        cands = [c for t in self.db.tables if t is not cur[0].table and t is not other for c in t.columns]
        if not cands:
            raise LookupError('no third table')
        if in_list:
            cur[0] = self.rng.choice(cands)
        else:
            self.set(r, side, [self.rng.choice(cands)])

    def move_column(self, r):
        """the column at one end of a reference moves to another table (delete_column + add_column)"""
        side = self.rng.choice(['col1', 'col2'])
        cur = getattr(r, side)
        if len(cur) != 1:
            raise LookupError('composite')
        col = cur[0]
        src = col.table
        other = (r.col2 if side == 'col1' else r.col1)[0].table
        dests = [t for t in self.db.tables if t is not src and t is not other and all(c.name != col.name for c in t.columns)]
        if not dests or len(src.columns) < 2 or any(col in ix.subjects for ix in src.indexes) or \
                any(q is not r and (col in q.col1 or col in q.col2) for q in self.db.refs):
            raise LookupError('not movable')
        dst = self.rng.choice(dests)
        src.delete_column(col)
        dst.add_column(col)

    def add_derived_table(self, t):
        """a new table that is given the NOTE OBJECT of an existing one: each table ends up with a note of its own"""
        from pydbml.classes import Table, Column
        if t.note is not None and t.note.text in self.once:
            self.once.remove(t.note.text)          # the copy repeats this text on purpose
        nt = Table(self.tok('dt'), schema=t.schema, note=t.note, columns=[Column(self.tok('dc'), 'int')])
        self.db.add(nt)
        if nt.note is t.note:
            self.lost.append('Table(note=<another table\'s Note object>): the two tables share one Note object')

    def add_derived_enum(self, e):
        """a new enum made from the items of an existing one: the item OBJECTS are shared on purpose (whatever is written
        into one of them shows in both enums), the two item LISTS are not (an item added later belongs to one enum)"""
        from pydbml.classes import Enum
        for it in e.items:
            self.shared.add(id(it))
            self.keep.append(it)
            for tokn in (it.name, it.note.text if it.note else None):
                if tokn in self.once:
                    self.once.remove(tokn)
        self.db.add(Enum(self.tok('den'), e.items, schema=e.schema))

    def add_enum_item(self, e):
        """a new item belongs to the enum it was added to (and to no other)"""
        from pydbml.classes import EnumItem
        name = self.tok('it')
        e.add_item(self.rng.choice([name, EnumItem(name, note=self.tok('n '))]))
        self.once.append(name)

    def expr_inplace(self, c):
        """edit the text of an Expression default in place (gives the column one first if it has none)"""
        from pydbml.classes import Expression
        if not isinstance(c.default, Expression):
            self.set(c, 'default', Expression(self.rng.choice(['now()', 'id * 2'])))
        else:
            newt = self.tok('expr_') + '()'
            c.default.text = newt
            self.once.append(newt)
            self.expect_token(c, 'default', newt)

    def index_expr_inplace(self, t):
        from pydbml.classes import Expression
        for ix in t.indexes:
            for sbj in ix.subjects:
                if isinstance(sbj, Expression):
                    newt = self.tok('ixexpr_') + '()'
                    sbj.text = newt
                    self.once.append(newt)
                    return
        raise LookupError('no expression subject')

    def twin_default(self, c):
        """assign a default that compares == to the current one but is a different value for rendering"""
        pairs = [(True, 1), (1, True), (False, 0), (0, False), (1.0, 1), (2, 2.0), (2.0, 2), (5, 5.0), (0.0, 0)]
        d = c.default
        for k, v in pairs:
            if type(k) is type(d) and k == d:
                self.set(c, 'default', v)
                return
        self.set(c, 'default', self.rng.choice([1, True, 0, False, 2]))

    def note_same_text_then_edit(self, c):
        from pydbml.classes import Note
        n = Note(c.note.text)
        self.set(c, 'note', n)          # same text, new object
        n.text = self.tok('edited note ')
        self.must = {k: v for k, v in self.must.items() if k != (id(c), 'note')}
        self.expect_token(c, 'note', n.text)

    def edits(self):
        from pydbml.classes import Column, Index, EnumItem, Note, Expression, Enum
        db, rng = self.db, self.rng
        T = db.tables
        cols = [c for t in T for c in t.columns]
        E = db.enums
        R = db.refs
        out = []

        def rename(obj, attr):
            def f():
                old = getattr(obj, attr)
                # schemas are shared between tables / enums, every other name token belongs to one object
                if isinstance(old, str) and old.endswith('q') and attr != 'schema' and old not in self.text_copies:
                    self.stale.append(old)
                newv = self.tok(attr[:2])
                setattr(obj, attr, newv)
                if attr in ('name', 'alias') and type(obj).__name__ in ('Table', 'Column', 'Enum', 'EnumItem', 'TableGroup', 'Project', 'StickyNote'):
                    self.expect_token(obj, attr, newv)
            return f
        if T:
            t = rng.choice(T)
            out += [('rename-table', rename(t, 'name')), ('rename-schema', rename(t, 'schema')),
                    ('rename-alias', rename(t, 'alias')),
                    ('schema-public', lambda: self.set(t, 'schema', 'public')),
                    ('alias-none', lambda: (self.set(t, 'alias', None), self.must.pop((id(t), 'alias'), None))),
                    ('table-note-replace', lambda: self.set(t, 'note', Note(self.tok('note ')))),
                    ('table-note-inplace', lambda: self.set(t.note, 'text', self.tok('note '))),
                    ('table-note-writeback', lambda: self.writeback(t)),
                    ('add-derived-table', lambda: self.add_derived_table(t)),
                    ('table-color', lambda: self.set(t, 'header_color', rng.choice([None, '#abc', '#112233']))),
                    ('table-comment', lambda: self.set(t, 'comment', rng.choice([None, self.tok('cm ')]))),
                    ('add-column', lambda: t.add_column(Column(self.tok('nc'), rng.choice(['int', 'text']), pk=rng.random() < 0.2,
                                                              default=rng.choice([None, 0, 5, 'x', False])))),
                    ('add-index', lambda: self.add_checked(t.add_index, lambda: t.indexes, Index(rng.sample(t.columns, rng.randint(1, min(2, len(t.columns)))),
                                                            name=rng.choice([None, self.tok('ix')]), unique=rng.random() < 0.5,
                                                            pk=rng.random() < 0.2, type=rng.choice([None, 'btree', 'hash'])))),
                    ('add-bare-index-then-configure', lambda: self.add_then_configure(t)),
                    ]
            if t.indexes:
                out.append(('remove-index', lambda: t.delete_index(rng.randrange(len(t.indexes)))))
                out.append(('add-twin-index', lambda: self.add_twin_index(t)))
                out.append(('remove-index-by-object', lambda: self.remove_index_by_object(t)))
                out.append(('index-expression-inplace', lambda: self.index_expr_inplace(t)))
                ix = rng.choice(t.indexes)
                out += [('index-name', lambda: self.set(ix, 'name', rng.choice([None, self.tok('ixn')]))),
                        ('index-flags', lambda: (self.set(ix, 'unique', not ix.unique), self.set(ix, 'type', rng.choice([None, 'gin', 'brin'])))),
                        ('index-note', lambda: self.set(ix, 'note', Note(self.tok('inote ')))),
                        ('index-note-inplace', lambda: self.note_inplace(ix)),
                        ('index-subjects-append', lambda: self.subjects_append(t, ix))]
        if cols:
            c = rng.choice(cols)
            out += [('rename-column', rename(c, 'name')),
                    ('column-type-str', lambda: self.set(c, 'type', rng.choice(['bigint', 'varchar(10)', 'text[]', self.tok('ty')]))),
                    ('column-type-text-like-enum-name', lambda: self.type_like_enum(c)),
                    ('column-flag', lambda: self.set(c, rng.choice(['pk', 'unique', 'not_null', 'autoinc']), rng.random() < 0.5)),
                    ('column-default', lambda: self.set(c, 'default', rng.choice(
                        [None, 0, 1, 2.5, True, False, '', self.tok('dv'), Expression('now()'), 'NULL']))),
                    ('column-default-equal-twin', lambda: self.twin_default(c)),
                    ('expression-default-inplace', lambda: self.expr_inplace(c)),
                    ('column-note-same-text-then-edit', lambda: self.note_same_text_then_edit(c)),
                    ('column-note-replace', lambda: self.set(c, 'note', Note(self.tok('cnote ')))),
                    ('column-note-writeback', lambda: self.writeback(c)),
                    ('column-note-inplace', lambda: self.set(c.note, 'text', self.tok('cnote '))),
                    ('column-comment', lambda: self.set(c, 'comment', rng.choice([None, self.tok('cc ')])))]
            if E:
                out.append(('column-type-enum', lambda: self.set(c, 'type', rng.choice(E))))
        if E:
            e = rng.choice(E)
            out += [('rename-enum', rename(e, 'name')), ('rename-enum-schema', rename(e, 'schema')),
                    ('add-enum-item', lambda: self.add_enum_item(e)),
                    ('add-derived-enum', lambda: self.add_derived_enum(e)),
                    ('add-prebuilt-enum-item', lambda: self.add_prebuilt_item(e)),
                    ('enum-item-note-inplace', lambda: self.note_inplace(rng.choice(e.items))),
                    ('enum-note-writeback', lambda: self.writeback(rng.choice(e.items))),
                    ('rename-enum-item', rename(rng.choice(e.items), 'name')),
                    ('enum-item-note', lambda: self.set(rng.choice(e.items), 'note', Note(self.tok('einote '))))]
        if R:
            r_ = rng.choice(R)
            out += [('ref-kind', lambda: self.set(r_, 'type', rng.choice(['>', '<', '-', '<>']))),
                    ('ref-inline', lambda: setattr(r_, 'inline', not r_.inline)),     # no read-back: <> never reads back as inline
                    ('ref-name', lambda: self.set(r_, 'name', rng.choice([None, '', self.tok('rn')]))),
                    ('ref-actions', lambda: (self.set(r_, 'on_update', rng.choice([None, 'cascade', 'set null'])),
                                             self.set(r_, 'on_delete', rng.choice([None, 'restrict', 'no action'])))),
                    ('ref-comment', lambda: self.set(r_, 'comment', rng.choice([None, self.tok('rc ')]))),
                    ('ref-repoint', lambda: self.repoint(r_)),
                    ('ref-endpoint-list-item', lambda: self.repoint(r_, in_list=True)),
                    ('move-referenced-column', lambda: self.move_column(r_))]
        if db.table_groups:
            g = rng.choice(db.table_groups)
            out += [('rename-group', rename(g, 'name')), ('group-color', lambda: self.set(g, 'color', rng.choice([None, '#fff'])))]
        if db.project is not None:
            p = db.project
            out += [('rename-project', rename(p, 'name')),
                    ('project-item', lambda: p.items.__setitem__(self.tok('k'), self.tok('v ')))]
        if db.sticky_notes:
            s = rng.choice(db.sticky_notes)
            out += [('sticky-text', lambda: self.set(s, 'text', self.tok('st '))), ('rename-sticky', rename(s, 'name'))]
        return out


def run_history(sh, db, origin, rng, tracer, suite='random', maxlen=12, case_seed=None):
    try:
        start = db.dbml
    except Exception:
        start = '<raises>'
    renderings(db)          # warm any cache
    ed = Editor(rng, db)
    steps = []
    changed = False
    L = rng.randint(1, maxlen)
    prev = renderings(db)
    for n in range(L):
        choices = ed.edits()
        if not choices:
            break
        kind, f = rng.choice(choices)
        tracer.phase = 'edit:' + kind
        try:
            f()
        except Exception as e:  # an edit through the public API must not fail here; if it does it is not C10's business
            sh.count('obs.edit_raised.' + kind)
            tracer.phase = 'idle'
            continue
        tracer.phase = 'render'
        steps.append(kind)
        for msg in ed.lost:
            sh.violation('stale', f'assignment-lost:after-{kind}', f'after {steps}: {msg}', {'kind': 'edits', 'start': start, 'steps': steps[:], 'case_seed': case_seed}, {'edit': kind})
        ed.lost.clear()
        sh.count('obs.edit.' + kind)
        live = renderings(db)
        tracer.phase = 'clone'
        try:
            # an unrelated database is rendered in between: whatever a renderer might remember about `db`
            # (e.g. a cache keyed on equal content) must not be able to answer for the rebuilt copy
            renderings(_decoy())
            ref = renderings(clone(db))
        except Exception as e:  # noqa
            sh.count('obs.clone_failed.' + type(e).__name__)
            tracer.phase = 'idle'
            break
        tracer.phase = 'idle'
        sh.transitions += 1
        if live != prev:
            changed = True
        prev = live
        case = {'kind': 'edits', 'start': start, 'steps': steps[:], 'origin': origin, 'case_seed': case_seed}
        for key in sorted(set(live) | set(ref)):
            a, b = live.get(key), ref.get(key)
            if a != b:
                what = key.split('[')[0] + key[key.rfind('.'):] if '[' in key else key
                kk = 'exception' if isinstance(a, tuple) or isinstance(b, tuple) else 'text'
                sh.violation('stale', f'differs-from-rebuilt:{what}:{kk}:after-{kind}',
                             f'after {steps}: {key}: live {str(a)[:300]!r} != rebuilt {str(b)[:300]!r}', case, {'edit': kind})
        d_ = live.get('db.dbml')
        if isinstance(d_, str):
            for (oid, attr), tokn in ed.must.items():
                if tokn not in d_:
                    sh.violation('stale', f'new-value-missing:{attr}:after-{kind}', f'after {steps}: the assigned {attr} {tokn!r} does not show up in db.dbml', case, {'edit': kind})
        if isinstance(d_, str):
            for tokn in ed.once:
                if d_.count(tokn) > 1:
                    sh.violation('stale', f'inplace-edit-shows-up-elsewhere:after-{kind}',
                                 f'after {steps}: {tokn!r} was written into one text in place and occurs {d_.count(tokn)} times in db.dbml', case, {'edit': kind})
            sh.count('obs.once_tokens_checked', len(ed.once))
        for tokn in ed.stale:
            for key in ('db.dbml', 'db.sql'):
                v = live.get(key)
                if isinstance(v, str) and re.search(r'(?<![A-Za-z0-9_])' + re.escape(tokn) + r'(?![A-Za-z0-9_])', v):
                    sh.violation('stale', f'stale-token:{key}:after-{kind}', f'after {steps}: old name {tokn!r} still in {key}', case, {'edit': kind})
    sh.case([start, steps], nontrivial=changed, sample={'origin': origin, 'steps': steps, 'start_dbml': start[:500]})
    sh.count(f'obs.histories.{origin}')


def one_case(sh, case_seed, tracer):
    """one start database + one edit history, fully determined by case_seed (so a witness can be replayed)"""
    rng = random.Random(case_seed)
    doc = gen.random_doc(rng, rng.choice(['small', 'small', 'medium']), 'plain', flavours=('tok',),
                         props=rng.random() < 0.3, ml_small_notes=False)
    for t in doc.tables:
        if t.alias == t.name:
            t.alias = None          # the staleness scan needs every name token to belong to one attribute only
    for t in doc.tables:
        names = {c.name for c in t.columns}
        for ix in t.indexes:
            ix.subjects = [(k_, 'id*2' if k_ == 'expr' and v_ in names else v_) for k_, v_ in ix.subjects]
        for c in t.columns:
            if c.default is not None and c.default.kind == 'str' and c.default.value in names:
                c.default = None
    inames = {it.name for e in doc.enums for it in e.items}
    for t in doc.tables:
        for c in t.columns:
            if c.default is not None and c.default.kind == 'str' and c.default.value in inames:
                c.default = None
    tnames = {t.name for t in doc.tables}
    for e in doc.enums:
        if e.name.split('.')[0] in tnames:
            e.name = 'enq' + e.name       # one owner per name token (an enum may be called like a table; not in this check)
    seen_sn = set()
    for st in doc.stickies:
        if st.name in seen_sn:
            st.name = st.name + 'dupq'      # same reason: one owner per name token
        seen_sn.add(st.name)
    if rng.random() < 0.25:
        # equal texts in several slots (the same expression as default of several columns and as an index subject,
        # the same note text on several elements): an in-place edit of one of them is an edit of that one only
        ex = rng.choice(['now()', 'uuid_generate_v4()'])
        nt = 'same note'
        for t in doc.tables:
            for c in t.columns:
                if c.default is None and c.type.kind != 'enum' and rng.random() < 0.5:
                    c.default = am.Default('expr', ex)
                if rng.random() < 0.4:
                    c.note = nt
            if rng.random() < 0.5:
                t.note = nt
            if t.columns and rng.random() < 0.6:
                t.indexes.append(am.Index(subjects=[('expr', ex)]))
        sh.count('obs.docs.equal-texts')
    tracer.phase = 'build'
    if rng.random() < 0.5:
        db, err = parse(surface.render(doc, case_seed), allow_properties=doc.allow_properties)
        origin = 'parsed'
        if err is not None:
            sh.count('obs.source_rejected')
            tracer.phase = 'idle'
            return
    else:
        db = apibuild.build(doc)
        origin = 'api'
    tracer.phase = 'idle'
    run_history(sh, db, origin, rng, tracer, case_seed=case_seed)


def plan(tier, seed):
    return [{'shard': i, 'of': 16} for i in range(16)]


def run_shard(spec, tier, seed, budget_s):
    sh = Shard(ID, budget_s)
    i = spec['shard']
    rng = random.Random(f'{seed}-c10-{i}')
    target = {'quick': 300, 'thorough': 3000}[tier]
    k = 0
    with monitors.WriteTracer() as tracer:
        while k < target and not sh.out_of_time():
            k += 1
            one_case(sh, f'{seed}-c10-{i}-{k}', tracer)
        writes = {}
        for phase, cls, attr in tracer.events:
            if phase.startswith('edit:'):
                writes[f'{cls}.{attr}'] = writes.get(f'{cls}.{attr}', 0) + 1
            elif phase == 'render':
                sh.count('obs.writes_during_render')
        for kk, v in writes.items():
            sh.count('write.' + kk, v)
    return sh


NEED_EDITS = ['expression-default-inplace', 'add-twin-index', 'remove-index-by-object', 'column-default-equal-twin', 'column-note-same-text-then-edit', 'rename-table', 'rename-schema', 'rename-alias', 'rename-column', 'rename-enum', 'column-type-str', 'column-type-enum',
              'column-flag', 'column-default', 'column-note-replace', 'column-note-inplace', 'table-note-replace', 'ref-kind',
              'ref-inline', 'ref-name', 'ref-actions', 'add-column', 'add-index', 'add-enum-item', 'remove-index', 'rename-group']


def conclusive(agg, tier):
    c = agg['counters']
    out = [f'edit kind {e} never applied' for e in NEED_EDITS if not c.get('obs.edit.' + e)]
    for k in ('obs.histories.parsed', 'obs.histories.api'):
        if not c.get(k):
            out.append(f'{k} is zero')
    return out


def replay(v):
    """re-runs the whole edit history of the witness from its case seed"""
    sh = Shard(ID)
    cs = (v.get('case') or {}).get('case_seed')
    if not cs:
        return [dict(v)]
    with monitors.WriteTracer() as tracer:
        one_case(sh, cs, tracer)
    return sh.violations
