"""C09 — The container stays consistent under any sequence of add, delete and rename.

An executable reference model (ordered lists + name map, membership by an
equality key computed from the model's own field tuples) is run in lock-step
with the real Database / Table.  After every call the complete observable state
of the real objects is compared with the model, and the exception class of the
call with the class the model predicts.  icontract invariants are attached to
the real Database and Table classes from here (nothing is edited in /repo).
"""
import itertools
import random

from pv.result import Shard, digest

ID = 'C09'
MANIFEST = {
    'category': 'model_checking',
    'text': ('Executable reference model in lock-step with the real Database and Table over a universe built for clashes (equal '
             'copies, same full name, alias equal to another alias or to a full name, same-name enums and groups, equal '
             'references one of them inline, a reference none of whose tables is contained, two projects, sticky notes, '
             'unsupported objects). ALL histories of add / delete / rename up to depth 3 (database level) and depth 4 (table '
             'level: columns and indexes by object and by position, foreign-column index, twin-table equal column), breadth-first '
             'with model-state de-duplication to depth 5-6 in thorough, seeded random histories of length 30 beyond; full '
             'observable state and exception class compared after every call; icontract class invariants evaluated on every '
             'public method of the real classes.'),
    'note': 'the reference model is written from the property statement (ordered containment, name/alias lookup under current names, back-pointers, rejected => unchanged); structural equality is modelled by field tuples; preconditions: a column/index object has one owner at a time, renames use fresh values, a sticky note is not added twice',
    'technique': 'runtime monitoring: history + executable reference model in lock-step, icontract invariants at the hooks, exhaustive bounded histories',
}
LEVEL = 'model_checking'
BUDGET = {'quick': 120, 'thorough': 420}
RULE = ('operation histories over the clash universe; exhaustive to the stated depth, then BFS over distinct model states, then '
        'seeded random histories; a case = one history; distinct by the history itself; non-trivial = at least one accepted '
        'mutation; states = distinct model states visited, transitions = calls executed and compared')
ASSUMPTIONS = ['preconditions listed in level_note', 'CPython trusted; icontract trusted for evaluating the invariants']
EXHAUSTIVE = {'quick': 'all database-level histories of length <= 3 over 61 operations; all table-level histories of length <= 3 over 39 operations',
              'thorough': 'as quick, plus table-level length 4 and BFS over distinct model states to depth 5 (database) / 6 (table)'}

_contract_counts = {'db': 0, 'table': 0}
_contracts_on = False


class InvariantBroken(Exception):
    pass


def db_invariant(self):
    _contract_counts['db'] += 1
    if not hasattr(self, 'tables'):
        return True
    for t in self.tables:
        if t.database is not self:
            return False
    td = self.table_dict
    for t in self.tables:
        if td.get(t.full_name) is None:
            return False
        if t.alias and td.get(t.alias) is None:
            return False
    for v in td.values():
        if not any(v is t for t in self.tables):
            return False
    for lst in (self.refs, self.enums, self.table_groups, self.sticky_notes):
        for o in lst:
            if o.database is not self:
                return False
    if self.project is not None and self.project.database is not self:
        return False
    return True


def table_invariant(self):
    _contract_counts['table'] += 1
    if not hasattr(self, 'columns') or not hasattr(self, 'indexes'):
        return True
    for c in self.columns:
        if c.table is not self:
            return False
    for i in self.indexes:
        if i.table is not self:
            return False
    return True


def attach_contracts():
    global _contracts_on
    if _contracts_on:
        return True
    try:
        import icontract
        from pydbml.database import Database
        from pydbml.classes import Table
        icontract.invariant(db_invariant, error=lambda self: InvariantBroken('Database invariant'))(Database)
        icontract.invariant(table_invariant, error=lambda self: InvariantBroken('Table invariant'))(Table)
        _contracts_on = True
    except Exception as e:   # pragma: no cover
        return f'{type(e).__name__}: {e}'
    return True


# ---------------------------------------------------------------------------
# database-level universe and model

DBV = 'DatabaseValidationError'


class U:
    """fresh universe of real objects + their model records"""

    def __init__(self):
        from pydbml import Database
        from pydbml.classes import Column, Enum, Project, Reference, StickyNote, Table, TableGroup
        self.db = Database()
        o = self.o = {}
        m = self.m = {}

        def table(uid, name, schema='public', alias=None, cols=(('id', 'int'),)):
            t = Table(name, schema=schema, alias=alias)
            for cn, ct in cols:
                t.add_column(Column(cn, ct))
            o[uid] = t
            m[uid] = {'kind': 'table', 'schema': schema, 'name': name, 'alias': alias, 'cols': tuple(cols)}
            return t
        T1 = table('T1', 'a', cols=(('id', 'int'), ('x', 'int')))
        table('T1b', 'a', cols=(('id', 'int'), ('x', 'int')))
        table('T2', 'a', cols=(('other', 'text'),))
        T3 = table('T3', 'b', alias='al')
        table('T4', 'c', schema='s', alias='al')
        table('T5', 'd', alias='public.b')
        T6 = table('T6', 'e')
        table('T7', 'selfal', alias='selfal')          # alias spelled like the table's own bare name
        TX = table('TX', 'never1')
        TY = table('TY', 'never2')

        def enum(uid, name, items, schema='public'):
            o[uid] = Enum(name, items, schema=schema)
            m[uid] = {'kind': 'enum', 'schema': schema, 'name': name, 'items': tuple(items)}
        enum('E1', 'e1', ['x'])
        enum('E1b', 'e1', ['x'])
        enum('E2', 'e1', ['y'])
        enum('E3', 'e1', ['x'], schema='s')
        for uid, name, items in (('G1', 'g', [T1]), ('G2', 'g', []), ('G3', 'h', [T3])):
            o[uid] = TableGroup(name, items)
            m[uid] = {'kind': 'group', 'name': name}
        o['R1'] = Reference('>', T1['id'], T3['id'])
        m['R1'] = {'kind': 'ref', 'tables': ('T1', 'T3'), 'eq': 'r1'}
        o['R1b'] = Reference('>', T1['id'], T3['id'], inline=True)
        m['R1b'] = {'kind': 'ref', 'tables': ('T1', 'T3'), 'eq': 'r1'}
        o['R2'] = Reference('>', TX['id'], TY['id'])
        m['R2'] = {'kind': 'ref', 'tables': ('TX', 'TY'), 'eq': 'r2'}
        o['R3'] = Reference('<', T3['id'], T6['id'], name='n')
        m['R3'] = {'kind': 'ref', 'tables': ('T3', 'T6'), 'eq': 'r3'}
        for uid in ('P1', 'P2'):
            o[uid] = Project(uid.lower())
            m[uid] = {'kind': 'project'}
        for uid in ('S1', 'S2'):
            o[uid] = StickyNote(uid.lower(), 'text')
            m[uid] = {'kind': 'sticky'}
        # --- coincidence objects (fourth mutation round): dots inside names, a sticky note whose text is empty (it is
        # falsy), instances of user subclasses of the model classes
        enum('E4', 'c', ['x'], schema='a.b')
        enum('E5', 'b.c', ['x'], schema='a')
        o['S3'], o['S4'] = StickyNote('s3', ''), StickyNote('s4', None)
        m['S3'], m['S4'] = {'kind': 'sticky'}, {'kind': 'sticky'}
        MyTable, MyEnum, MyGroup = type('MyTable', (Table,), {}), type('MyEnum', (Enum,), {}), type('MyGroup', (TableGroup,), {})
        MyProject, MySticky, MyRef = type('MyProject', (Project,), {}), type('MySticky', (StickyNote,), {}), type('MyRef', (Reference,), {})
        t8 = MyTable('subt')
        t8.add_column(Column('id', 'int'))
        o['T8'] = t8
        m['T8'] = {'kind': 'table', 'schema': 'public', 'name': 'subt', 'alias': None, 'cols': (('id', 'int'),)}
        o['E6'] = MyEnum('sube', ['x'])
        m['E6'] = {'kind': 'enum', 'schema': 'public', 'name': 'sube', 'items': ('x',)}
        o['G4'] = MyGroup('subg', [])
        m['G4'] = {'kind': 'group', 'name': 'subg'}
        o['P3'] = MyProject('subp')
        m['P3'] = {'kind': 'project'}
        o['S5'] = MySticky('s5', 'text')
        m['S5'] = {'kind': 'sticky'}
        o['R4'] = MyRef('>', T6['id'], T1['id'])
        m['R4'] = {'kind': 'ref', 'tables': ('T6', 'T1'), 'eq': 'r4'}
        # a reference all of whose tables live in ANOTHER database; the same reference as R1 spelled with tuples; a
        # reference built from lists the caller goes on using afterwards
        self.db2 = Database()
        tw1, tw2 = Table('w1'), Table('w2')
        for tw in (tw1, tw2):
            tw.add_column(Column('id', 'int'))
            self.db2.add(tw)
        o['R5'] = Reference('>', tw1['id'], tw2['id'])
        m['R5'] = {'kind': 'ref', 'tables': ('TW1', 'TW2'), 'eq': 'r5'}
        o['R1t'] = Reference('>', (T1['id'],), (T3['id'],))
        m['R1t'] = {'kind': 'ref', 'tables': ('T1', 'T3'), 'eq': 'r1'}
        l1, l2 = [T6['id']], [T3['id']]
        o['R6'] = Reference('-', l1, l2)
        m['R6'] = {'kind': 'ref', 'tables': ('T6', 'T3'), 'eq': 'r6'}
        l1.append(T1['x'])          # the caller's own lists change afterwards: the reference keeps what it was given
        l2[0] = T1['id']
        self.ref_cols = {'R1': ([T1['id']], [T3['id']]), 'R1b': ([T1['id']], [T3['id']]), 'R1t': ([T1['id']], [T3['id']]),
                         'R3': ([T3['id']], [T6['id']]), 'R4': ([T6['id']], [T1['id']]), 'R6': ([T6['id']], [T3['id']]),
                         'R5': ([tw1['id']], [tw2['id']])}
        o['U1'], o['U2'], o['U3'] = 'a string', 42, Column('loose', 'int')
        for uid in ('U1', 'U2', 'U3'):
            m[uid] = {'kind': 'unsupported'}
        # model state
        self.tables, self.enums, self.groups, self.refs, self.stickies = [], [], [], [], []
        self.project = None
        self.fresh = 0
        self.keys_ever = set()
        for uid, r in m.items():
            if r['kind'] == 'table':
                self.keys_ever.add(f'{r["schema"]}.{r["name"]}')
                if r['alias']:
                    self.keys_ever.add(r['alias'])

    # ---- model helpers
    def full(self, uid):
        r = self.m[uid]
        return f'{r["schema"]}.{r["name"]}'

    def tkey(self, uid):
        r = self.m[uid]
        return (r['schema'], r['name'], r['alias'], r['cols'])

    def keys(self):
        d = {}
        for uid in self.tables:
            d[self.full(uid)] = uid
            if self.m[uid]['alias']:
                d[self.m[uid]['alias']] = uid
        return d

    def state(self):
        ren = tuple((u, self.m[u].get('renamed', ())) for u in ('T1', 'T3', 'T6'))
        return (tuple(self.tables), tuple(self.enums), tuple(self.groups), tuple(self.refs), tuple(self.stickies),
                self.project, ren)


DB_OBJECTS = ['T1', 'T1b', 'T2', 'T3', 'T4', 'T5', 'T6', 'T7', 'E1', 'E1b', 'E2', 'E3', 'G1', 'G2', 'G3', 'R1', 'R1b', 'R2', 'R3',
              'P1', 'P2', 'S1', 'S2', 'U1', 'U2', 'U3']
DB_OPS = [('add', x) for x in DB_OBJECTS] + [('del', x) for x in DB_OBJECTS if x not in ('U3',)] + \
         [('ren', t, f) for t in ('T1', 'T3', 'T6') for f in ('name', 'schema', 'alias')] + [('delproject',)] + \
         [('ren', 'E1', 'name'), ('ren', 'E1', 'schema'), ('render',)]      # an enum renamed while contained; both renderings evaluated
EXTRA_OBJECTS = ['E4', 'E5', 'S3', 'S4', 'T8', 'E6', 'G4', 'P3', 'S5', 'R4', 'R5', 'R1t', 'R6']
EXTRA_OPS = [('add', x) for x in EXTRA_OBJECTS] + [('del', x) for x in EXTRA_OBJECTS]
NEAR_OPS = EXTRA_OPS + [('add', 'T6'), ('add', 'T1'), ('add', 'T3'), ('add', 'R1'), ('del', 'R1'), ('add', 'P1'), ('del', 'P1'), ('add', 'S1'), ('delproject',)]
TYPED = {'table': ('add_table', 'delete_table'), 'enum': ('add_enum', 'delete_enum'), 'group': ('add_table_group', 'delete_table_group'),
         'ref': ('add_reference', 'delete_reference'), 'project': ('add_project', None), 'sticky': ('add_sticky_note', None)}


def model_step(u, op):
    """-> ('ok' | 'reject' | 'either' | 'skip', expected exception class name or None, apply function)"""
    kind = op[0]
    if kind == 'ren':
        _, t, f = op

        def apply():
            u.fresh += 1
            val = f'fresh{u.fresh}'
            u.m[t][f] = val
            u.m[t]['renamed'] = tuple(sorted(set(u.m[t].get('renamed', ())) | {f}))
            u.keys_ever.add(val)
            u.keys_ever.add(u.full(t))
            return val
        return 'ok', None, apply
    if kind == 'render':
        return 'ok', None, (lambda: None)           # evaluating .sql / .dbml changes nothing
    if kind == 'delproject':
        if u.project is None:
            return 'reject', DBV, None

        def apply():
            u.project = None
        return 'ok', None, apply
    uid = op[1]
    r = u.m[uid]
    k = r['kind']
    if k == 'unsupported':
        return 'reject', DBV, None
    if kind == 'add':
        if k == 'table':
            keys = u.keys()
            if any(u.tkey(c) == u.tkey(uid) for c in u.tables) or u.full(uid) in keys or (r['alias'] and r['alias'] in keys):
                return 'reject', DBV, None
            return 'ok', None, lambda: u.tables.append(uid)
        if k == 'enum':
            if any((u.m[c]['schema'], u.m[c]['name']) == (r['schema'], r['name']) for c in u.enums):
                return 'reject', DBV, None
            return 'ok', None, lambda: u.enums.append(uid)
        if k == 'group':
            if any(u.m[c]['name'] == r['name'] for c in u.groups):
                return 'reject', DBV, None
            return 'ok', None, lambda: u.groups.append(uid)
        if k == 'ref':
            if not any(t in u.tables for t in r['tables']):
                return 'reject', DBV, None
            if any(u.m[c]['eq'] == r['eq'] for c in u.refs):
                return 'reject', DBV, None
            return 'ok', None, lambda: u.refs.append(uid)
        if k == 'sticky':
            if uid in u.stickies:
                return 'skip', None, None
            return 'ok', None, lambda: u.stickies.append(uid)
        if k == 'project':
            def apply():
                u.project = uid
            return 'ok', None, apply
    if kind == 'del':
        if k == 'table':
            hit = next((c for c in u.tables if u.tkey(c) == u.tkey(uid)), None)
            if hit is None:
                return 'reject', DBV, None
            return 'ok', None, lambda: u.tables.remove(hit)
        if k == 'enum':
            if uid not in u.enums:
                return 'reject', DBV, None
            return 'ok', None, lambda: u.enums.remove(uid)
        if k == 'group':
            if uid not in u.groups:
                return 'reject', DBV, None
            return 'ok', None, lambda: u.groups.remove(uid)
        if k == 'ref':
            hit = next((c for c in u.refs if u.m[c]['eq'] == r['eq']), None)
            if hit is None:
                return 'reject', DBV, None
            return 'ok', None, lambda: u.refs.remove(hit)
        if k == 'sticky':
            if uid not in u.stickies:
                return 'reject', DBV, None
            # the library has no way to delete a sticky note: either refusal (unchanged) or removal is consistent
            return 'either', DBV, lambda: u.stickies.remove(uid)
        if k == 'project':
            if u.project != uid:
                return 'reject', DBV, None

            def apply():
                u.project = None
            return 'ok', None, apply
    raise AssertionError(op)


def real_step(u, op, typed=False):
    db, o = u.db, u.o
    if op[0] == 'ren':
        return None
    if op[0] == 'render':
        for what in ('sql', 'dbml'):
            try:
                getattr(db, what)
            except Exception:  # noqa  (an inconsistent intermediate state may legitimately refuse to render)
                pass
        return None
    if op[0] == 'delproject':
        return db.delete_project()
    obj = o[op[1]]
    k = u.m[op[1]]['kind']
    if typed and k in TYPED:
        name = TYPED[k][0 if op[0] == 'add' else 1]
        if name is not None:
            return getattr(db, name)(obj)
    return db.add(obj) if op[0] == 'add' else db.delete(obj)


def observe_db(u):
    """compare everything observable on the real database with the model -> list of (klass, detail)"""
    db, o = u.db, u.o
    out = []
    rid = {id(v): k for k, v in o.items() if not isinstance(v, (str, int))}

    def ids(lst):
        return [rid.get(id(x), '?') for x in lst]
    if ids(list(db)) != u.tables or ids(db.tables) != u.tables:
        out.append(('iteration', f'iter(db)={ids(list(db))} tables={ids(db.tables)} model={u.tables}'))
    for i in range(len(u.tables) + 1):
        try:
            got = rid.get(id(db[i]), '?')
        except IndexError:
            got = 'IndexError'
        except Exception as e:
            got = type(e).__name__
        want = u.tables[i] if i < len(u.tables) else 'IndexError'
        if got != want:
            out.append(('positional-lookup', f'db[{i}] -> {got}, model {want}'))
    keys = u.keys()
    for k in sorted(u.keys_ever):
        try:
            got = rid.get(id(db[k]), '?')
        except KeyError:
            got = 'KeyError'
        except Exception as e:
            got = type(e).__name__
        want = keys.get(k, 'KeyError')
        if got != want:
            out.append(('name-lookup-stale' if want == 'KeyError' else 'name-lookup-missing', f'db[{k!r}] -> {got}, model {want}'))
    for attr, model in (('enums', u.enums), ('table_groups', u.groups), ('refs', u.refs), ('sticky_notes', u.stickies)):
        if ids(getattr(db, attr)) != model:
            out.append(('list-' + attr, f'{attr}={ids(getattr(db, attr))} model={model}'))
    gp = rid.get(id(db.project), '?') if db.project is not None else None
    if gp != u.project:
        out.append(('project', f'project={gp} model={u.project}'))
    for uid, (c1, c2) in getattr(u, 'ref_cols', {}).items():
        r_ = o[uid]
        if len(r_.col1) != len(c1) or len(r_.col2) != len(c2) or any(a is not b for a, b in zip(list(r_.col1) + list(r_.col2), c1 + c2)):
            out.append(('reference-columns-changed', f'{uid}: columns are no longer the ones it was built with'))
    if getattr(u, 'db2', None) is not None:
        if len(u.db2.tables) != 2 or u.db2.refs or any(t.database is not u.db2 for t in u.db2.tables):
            out.append(('other-database-changed', f'the second database now has tables {len(u.db2.tables)}, refs {len(u.db2.refs)}'))
    contained = set(u.tables) | set(u.enums) | set(u.groups) | set(u.refs) | set(u.stickies) | ({u.project} if u.project else set())
    for uid, r in u.m.items():
        if r['kind'] == 'unsupported':
            continue
        d = getattr(o[uid], 'database', 'noattr')
        if uid in contained and d is not db:
            out.append(('backpointer-missing', f'{uid} is contained but .database is {d!r}'))
        if uid not in contained and d is not None:
            out.append(('backpointer-stale', f'{uid} is not contained but .database is {d!r}'))
        if r['kind'] == 'table':
            for c in o[uid].columns:
                want = db if uid in contained else None
                if c.database is not want:
                    out.append(('column-database', f'{uid}.{c.name}.database is {c.database!r}'))
    return out


def run_db_history(sh, ops, typed_mask=0, record_states=True):
    u = U()
    accepted = 0
    for n, op in enumerate(ops):
        verdict, exc, apply = model_step(u, op)
        if verdict == 'skip':
            sh.count('obs.skipped_precondition')
            continue
        typed = bool((typed_mask >> n) & 1)
        err = None
        try:
            if op[0] == 'ren':
                val = apply()
                setattr(u.o[op[1]], op[2], val)
            else:
                real_step(u, op, typed)
        except InvariantBroken as e:
            sh.violation('invariant', f'invariant:{e}:after-{op[0]}', f'{ops[:n+1]}', {'kind': 'dbhist', 'ops': [list(x) for x in ops], 'typed': typed_mask})
            return u
        except Exception as e:  # noqa
            err = e
        sh.transitions += 1
        opk = op[0] + ':' + (u.m[op[1]]['kind'] if len(op) > 1 and op[1] in u.m else '')
        case = {'kind': 'dbhist', 'ops': [list(x) for x in ops[:n + 1]], 'typed': typed_mask}
        if op[0] != 'ren':
            if verdict == 'ok':
                if err is not None:
                    sh.violation('call', f'rejected-valid:{opk}:{type(err).__name__}', f'{ops[:n+1]}: {type(err).__name__}: {err}', case)
                    return u
                apply()
                accepted += 1
                sh.count('obs.accepted.' + opk)
            elif verdict == 'reject':
                if err is None:
                    sh.violation('call', f'accepted-invalid:{opk}', f'{ops[:n+1]}: call returned, model says rejected with {exc}', case)
                    return u
                if type(err).__name__ != exc:
                    sh.violation('call', f'wrong-class:{opk}:{type(err).__name__}', f'{ops[:n+1]}: {type(err).__name__}: {err}; expected {exc}', case)
                sh.count('obs.rejected.' + opk)
            else:  # either
                if err is None:
                    apply()
                elif type(err).__name__ != exc:
                    sh.violation('call', f'wrong-class:{opk}:{type(err).__name__}', f'{ops[:n+1]}: {type(err).__name__}: {err}', case)
        else:
            accepted += 1
            sh.count('obs.accepted.ren:' + op[2])
        try:
            obs = observe_db(u)
        except InvariantBroken as e:
            sh.violation('invariant', f'invariant:{e}:after-{opk}', f'after {ops[:n+1]}', case)
            return u
        except Exception as e:  # noqa
            sh.violation('state', f'state:observation-raised:{type(e).__name__}:after-{opk}', f'after {ops[:n+1]}: {e}', case)
            return u
        for klass, detail in obs:
            sh.violation('state', f'state:{klass}:after-{opk}', f'after {ops[:n+1]}: {detail}', case,
                         {'has_rename': any(o[0] == 'ren' for o in ops[:n + 1])})
        if record_states:
            sh.states.add(digest(repr(u.state())))
    sh.case(repr(ops) + str(typed_mask), nontrivial=accepted > 0,
            sample={'level': 'database', 'history': [list(x) for x in ops], 'final_model_state': repr(u.state())[:300]})
    return u


# ---------------------------------------------------------------------------
# table-level universe and model

class TU:
    def __init__(self):
        from pydbml import Database
        from pydbml.classes import Column, Index, Table, Expression
        self.db = Database()
        self.t = Table('tt')
        self.twin = Table('tt')            # same full name: its equal column compares equal to ours
        self.other = Table('zz')
        o = self.o = {}
        m = self.m = {}

        def col(uid, name, typ, owner=None):
            c = Column(name, typ)
            o[uid] = c
            m[uid] = {'kind': 'col', 'name': name, 'type': typ, 'owner': None}
            if owner is not None:
                owner.add_column(c)
                m[uid]['owner'] = 'twin' if owner is self.twin else 'other'
            return c
        col('C1', 'c1', 'int')
        col('C2', 'c1', 'text')          # same name as C1, different type
        col('C3', 'c3', 'int')
        col('CT', 'c1', 'int', self.twin)    # equal to C1 once C1 is in self.t (same owner full name)
        col('CF', 'cf', 'int', self.other)   # foreign column
        o['I1'] = Index([o['C1']])
        m['I1'] = {'kind': 'idx', 'subj': ('C1',), 'eq': 'i1'}
        o['I1b'] = Index([o['C1']])
        m['I1b'] = {'kind': 'idx', 'subj': ('C1',), 'eq': 'i1'}
        o['I2'] = Index([o['CF']])
        m['I2'] = {'kind': 'idx', 'subj': ('CF',), 'eq': 'i2'}
        o['I3'] = Index([Expression('a+b')], unique=True)
        m['I3'] = {'kind': 'idx', 'subj': (), 'eq': 'i3'}
        o['I4'] = Index([o['C3'], o['C1']], name='n')
        m['I4'] = {'kind': 'idx', 'subj': ('C3', 'C1'), 'eq': 'i4'}
        o['I5'] = Index([o['C1'], o['CF']])           # own column first, foreign column later
        m['I5'] = {'kind': 'idx', 'subj': ('C1', 'CF'), 'eq': 'i5'}
        o['I6'] = Index([Expression('x*2'), o['C3'], o['CF']])
        m['I6'] = {'kind': 'idx', 'subj': ('C3', 'CF'), 'eq': 'i6'}
        o['X1'] = 'not a column'
        m['X1'] = {'kind': 'junk'}
        self.cols, self.idxs = [], []

    def ckey(self, uid, owner_override=None):
        r = self.m[uid]
        own = owner_override if owner_override is not None else ('tt' if (uid in self.cols or r['owner'] == 'twin') else r['owner'])
        return (r['name'], r['type'], own)

    def state(self):
        return (tuple(self.cols), tuple(self.idxs))


T_OPS = [('addc', x) for x in ('C1', 'C2', 'C3', 'X1')] + [('delc', x) for x in ('C1', 'C2', 'C3', 'CT', 'CF')] + \
        [('delc_i', i) for i in (0, 1, -1, 5, -2, -4, -9)] + [('addi', x) for x in ('I1', 'I1b', 'I2', 'I3', 'I4', 'I5', 'I6', 'X1')] + \
        [('deli', x) for x in ('I1', 'I1b', 'I2', 'I3', 'I4')] + [('deli_i', i) for i in (0, 1, -1, 5, -2, -4, -9)] + \
        [('attach',), ('detach',), ('renc', 'C1')]


def t_model_step(u, op):
    k = op[0]
    if k == 'addc':
        uid = op[1]
        if u.m[uid]['kind'] != 'col':
            return 'reject', 'TypeError', None
        if uid in u.cols:
            return 'skip', None, None          # precondition: one owner at a time, not twice
        return 'ok', None, lambda: u.cols.append(uid)
    if k == 'delc':
        uid = op[1]
        want = u.ckey(uid)
        hit = next((c for c in u.cols if (u.m[c]['name'], u.m[c]['type'], 'tt') == want and _fields_equal(u, c, uid)), None)
        if hit is None:
            return 'reject', 'ColumnNotFoundError', None
        return 'ok', None, lambda: u.cols.remove(hit)
    if k == 'delc_i':
        i = op[1]
        if not (-len(u.cols) <= i < len(u.cols)):
            return 'reject', 'IndexError', None
        return 'ok', None, lambda: u.cols.pop(i)
    if k == 'addi':
        uid = op[1]
        if u.m[uid]['kind'] != 'idx':
            return 'reject', 'TypeError', None
        if uid in u.idxs:
            return 'skip', None, None
        if any(s not in u.cols for s in u.m[uid]['subj']):
            return 'reject', 'ColumnNotFoundError', None
        return 'ok', None, lambda: u.idxs.append(uid)
    if k == 'deli':
        uid = op[1]
        hit = next((c for c in u.idxs if u.m[c]['eq'] == u.m[uid]['eq']), None)
        if hit is None:
            return 'reject', 'IndexNotFoundError', None
        return 'ok', None, lambda: u.idxs.remove(hit)
    if k == 'deli_i':
        i = op[1]
        if not (-len(u.idxs) <= i < len(u.idxs)):
            return 'reject', 'IndexError', None
        return 'ok', None, lambda: u.idxs.pop(i)
    if k in ('attach', 'detach'):
        return 'ok', None, lambda: None
    if k == 'renc':
        return 'ok', None, lambda: None
    raise AssertionError(op)


def _fields_equal(u, contained, arg):
    # same name/type already compared; renamed flag distinguishes C1 after a rename from CT
    return u.m[contained].get('ren', 0) == u.m[arg].get('ren', 0) or contained == arg


def t_real_step(u, op):
    t, o = u.t, u.o
    k = op[0]
    if k == 'addc':
        return t.add_column(o[op[1]])
    if k == 'delc':
        return t.delete_column(o[op[1]])
    if k == 'delc_i':
        return t.delete_column(op[1])
    if k == 'addi':
        return t.add_index(o[op[1]])
    if k == 'deli':
        return t.delete_index(o[op[1]])
    if k == 'deli_i':
        return t.delete_index(op[1])
    if k == 'attach':
        if t.database is None:
            u.db.add(t)
        return None
    if k == 'detach':
        if t.database is not None:
            u.db.delete(t)
        return None
    if k == 'renc':
        u.m['C1']['ren'] = u.m['C1'].get('ren', 0) + 1
        u.m['C1']['name'] = f'c1r{u.m["C1"]["ren"]}'
        o['C1'].name = u.m['C1']['name']
        return None


def observe_table(u):
    t, o = u.t, u.o
    out = []
    rid = {id(v): k for k, v in o.items() if not isinstance(v, str)}

    def ids(lst):
        return [rid.get(id(x), '?') for x in lst]
    if ids(t.columns) != u.cols or ids(list(t)) != u.cols:
        out.append(('columns-list', f'columns={ids(t.columns)} model={u.cols}'))
    if ids(t.indexes) != u.idxs:
        out.append(('indexes-list', f'indexes={ids(t.indexes)} model={u.idxs}'))
    for i in range(len(u.cols) + 1):
        try:
            got = rid.get(id(t[i]), '?')
        except IndexError:
            got = 'IndexError'
        want = u.cols[i] if i < len(u.cols) else 'IndexError'
        if got != want:
            out.append(('positional-lookup', f't[{i}] -> {got}, model {want}'))
    names = {'c1', 'c3', 'cf', 'nope'} | {u.m[c]['name'] for c in u.m if u.m[c]['kind'] == 'col'} | {'c1r1', 'c1r2'}
    for nme in sorted(names):
        want = next((c for c in u.cols if u.m[c]['name'] == nme), None)
        try:
            got = rid.get(id(t[nme]), '?')
        except Exception as e:
            got = type(e).__name__
        if got != (want or 'ColumnNotFoundError'):
            out.append(('name-lookup', f't[{nme!r}] -> {got}, model {want or "ColumnNotFoundError"}'))
        g2 = t.get(nme)
        if (rid.get(id(g2)) if g2 is not None else None) != want:
            out.append(('get', f't.get({nme!r}) -> {g2!r}, model {want}'))
    try:
        t[1.5]
        out.append(('lookup-type', 't[1.5] did not raise TypeError'))
    except TypeError:
        pass
    except Exception as e:
        out.append(('lookup-type', f't[1.5] raised {type(e).__name__}'))
    for uid, r in u.m.items():
        if r['kind'] == 'col':
            own = o[uid].table
            if uid in u.cols:
                want = t
            elif r['owner'] == 'twin':
                want = u.twin
            elif r['owner'] == 'other':
                want = u.other
            else:
                want = None
            if own is not want:
                out.append(('column-owner-' + ('missing' if want is t else 'stale' if own is t else 'damaged'),
                            f'{uid}.table is {own!r}, model {want!r}'))
        elif r['kind'] == 'idx':
            own = o[uid].table
            want = t if uid in u.idxs else None
            if own is not want:
                out.append(('index-owner-' + ('missing' if want is t else 'stale'), f'{uid}.table is {own!r}, model {want!r}'))
    # twin / other tables must be untouched
    if ids(u.twin.columns) != ['CT'] or ids(u.other.columns) != ['CF']:
        out.append(('foreign-table-changed', f'twin={ids(u.twin.columns)} other={ids(u.other.columns)}'))
    return out


def run_t_history(sh, ops):
    u = TU()
    accepted = 0
    for n, op in enumerate(ops):
        verdict, exc, apply = t_model_step(u, op)
        if verdict == 'skip':
            sh.count('obs.skipped_precondition')
            continue
        err = None
        try:
            t_real_step(u, op)
        except InvariantBroken as e:
            sh.violation('invariant', f'invariant:{e}:after-{op[0]}', f'{ops[:n+1]}', {'kind': 'thist', 'ops': [list(x) for x in ops]})
            return u
        except Exception as e:  # noqa
            err = e
        sh.transitions += 1
        case = {'kind': 'thist', 'ops': [list(x) for x in ops[:n + 1]]}
        opk = op[0]
        if verdict == 'ok':
            if err is not None:
                sh.violation('call', f'rejected-valid:{opk}:{type(err).__name__}', f'{ops[:n+1]}: {type(err).__name__}: {err}', case)
                return u
            apply()
            accepted += 1
            sh.count('obs.accepted.' + opk)
        else:
            if err is None:
                sh.violation('call', f'accepted-invalid:{opk}', f'{ops[:n+1]}: returned, model expects {exc}', case)
                return u
            if type(err).__name__ != exc:
                sh.violation('call', f'wrong-class:{opk}:{type(err).__name__}', f'{ops[:n+1]}: {type(err).__name__}: {err}; expected {exc}', case)
            sh.count('obs.rejected.' + opk)
        try:
            obs = observe_table(u)
        except InvariantBroken as e:
            sh.violation('invariant', f'invariant:{e}:after-{opk}', f'after {ops[:n+1]}', case)
            return u
        except Exception as e:  # noqa
            sh.violation('state', f'tstate:observation-raised:{type(e).__name__}:after-{opk}', f'after {ops[:n+1]}: {e}', case)
            return u
        for klass, detail in obs:
            sh.violation('state', f'tstate:{klass}:after-{opk}', f'after {ops[:n+1]}: {detail}', case)
        sh.states.add(digest('t' + repr(u.state())))
    sh.case(repr(ops), nontrivial=accepted > 0, sample={'level': 'table', 'history': [list(x) for x in ops]})
    return u


def ctor_checks(sh):
    """what the constructors accept is what the corresponding add_* method accepts (differential on the exception class)"""
    from pydbml.classes import Column, Index, Table, Expression

    def outcome(f):
        try:
            r = f()
            return 'ok', r
        except Exception as e:  # noqa
            return type(e).__name__, None

    def fresh():
        zz = Table('zz')
        f_ = Column('f', 'int')
        zz.add_column(f_)
        return Column('a', 'int'), Column('b', 'int'), f_
    shapes = {'own': lambda a, b, f_: [a], 'own-two': lambda a, b, f_: [a, b], 'foreign': lambda a, b, f_: [f_], 'own-then-foreign': lambda a, b, f_: [a, f_],
              'foreign-then-own': lambda a, b, f_: [f_, a], 'expr-and-foreign': lambda a, b, f_: [Expression('x'), f_], 'expr': lambda a, b, f_: [Expression('x')]}
    for name, mk in shapes.items():
        a, b, f_ = fresh()
        o1, t1 = outcome(lambda: Table('t', columns=[a, b], indexes=[Index(mk(a, b, f_))]))
        a2, b2, f2 = fresh()
        t2 = Table('t', columns=[a2, b2])
        o2, _ = outcome(lambda: t2.add_index(Index(mk(a2, b2, f2))))
        sh.case(['ctor', name], nontrivial=True, sample={'monitor': 'constructor', 'shape': name, 'ctor': o1, 'add_index': o2})
        sh.count('obs.constructor_differentials')
        if o1 != o2:
            sh.violation('call', f'constructor-differs-from-add_index:{name}', f'Table(indexes=[Index({name})]) -> {o1}, add_index -> {o2}', {'kind': 'ctor', 'shape': name})
        elif o1 == 'ok' and (len(t1.indexes) != 1 or t1.indexes[0].table is not t1):
            sh.violation('state', f'constructor-index-not-attached:{name}', 'index given to the constructor is not attached to the table', {'kind': 'ctor', 'shape': name})
    # a column that already belongs to another table
    a, b, f_ = fresh()
    o1, _ = outcome(lambda: Table('t', columns=[f_]))
    a2, b2, f2 = fresh()
    t2 = Table('t')
    o2, _ = outcome(lambda: t2.add_column(f2))
    sh.count('obs.constructor_differentials')
    if o1 != o2:
        sh.violation('call', 'constructor-differs-from-add_column:owned-column', f'Table(columns=[owned]) -> {o1}, add_column -> {o2}', {'kind': 'ctor', 'shape': 'owned-column'})


# ---------------------------------------------------------------------------
def plan(tier, seed):
    return [{'shard': i, 'of': 16} for i in range(16)]


def run_shard(spec, tier, seed, budget_s):
    sh = Shard(ID, budget_s)
    i, n = spec['shard'], spec['of']
    ok = attach_contracts()
    if ok is not True:
        sh.inconclusive.append(f'icontract invariants could not be attached: {ok}')
    # ---- exhaustive database-level histories of length <= 3, striped over the shards by first operation pair
    j = 0
    for depth in (1, 2, 3):
        for ops in itertools.product(DB_OPS, repeat=depth):
            j += 1
            if j % n != i:
                continue
            if sh.out_of_time():
                sh.inconclusive.append('exhaustive database-level enumeration did not finish in the time budget')
                break
            run_db_history(sh, ops)
            sh.count(f'obs.db_histories.depth{depth}')
    # the coincidence objects: all histories of length <= 2 over every operation with at least one of them, length 3 among
    # themselves and their neighbours; generic and typed entry points
    for depth, pool in ((1, EXTRA_OPS), (2, None), (3, NEAR_OPS)):
        if pool is None:
            gen_ = itertools.chain(itertools.product(EXTRA_OPS, DB_OPS + EXTRA_OPS), itertools.product(DB_OPS, EXTRA_OPS))
        else:
            gen_ = itertools.product(pool, repeat=depth)
        for ops in gen_:
            j += 1
            if j % n != i:
                continue
            if sh.out_of_time():
                sh.inconclusive.append('enumeration over the coincidence objects did not finish in the time budget')
                break
            run_db_history(sh, ops, typed_mask=0 if j % 3 else (1 << depth) - 1)
            sh.count('obs.db_histories.coincidence')
    # rendering in the middle of a history (holders added after the tables they reference and the other way round)
    if i == 0:
        for tabs in itertools.permutations(['T1', 'T3', 'T6', 'T2']):
            for refs in (['R1b'], ['R1b', 'R3'], ['R3', 'R1b'], ['R1', 'R4']):
                base = [('add', t_) for t_ in tabs] + [('add', r_) for r_ in refs]
                for tail in ([('render',)], [('render',), ('add', 'T7'), ('render',), ('del', tabs[0])], [('render',), ('ren', 'T1', 'name'), ('render',)]):
                    run_db_history(sh, tuple(base + tail))
                    sh.count('obs.db_histories.with_rendering')
        ctor_checks(sh)
    # typed entry points: all histories of length <= 2 with every call through the typed method
    for depth in (1, 2):
        for ops in itertools.product(DB_OPS, repeat=depth):
            j += 1
            if j % n != i:
                continue
            run_db_history(sh, ops, typed_mask=(1 << depth) - 1)
            sh.count('obs.db_histories.typed')
    # ---- exhaustive table-level histories
    tdepth = {'quick': 3, 'thorough': 4}[tier]
    for depth in range(1, tdepth + 1):
        for ops in itertools.product(T_OPS, repeat=depth):
            j += 1
            if j % n != i:
                continue
            if sh.out_of_time():
                sh.inconclusive.append('exhaustive table-level enumeration did not finish in the time budget')
                break
            run_t_history(sh, ops)
            sh.count(f'obs.t_histories.depth{depth}')
    # ---- BFS over distinct model states (thorough), then random long histories
    rng = random.Random(f'{seed}-c09-{i}')
    if tier == 'thorough':
        for level, ops_all, runner, maxd in (('db', DB_OPS, run_db_history, 5), ('t', T_OPS, run_t_history, 6)):
            frontier = [()]
            seen = set()
            for depth in range(1, maxd + 1):
                nxt = []
                rng.shuffle(frontier)
                for hist in frontier[:400]:
                    for op in ops_all:
                        if sh.out_of_time():
                            break
                        h = hist + (op,)
                        u = runner(sh, h)
                        st = repr(u.state())
                        if st not in seen:
                            seen.add(st)
                            nxt.append(h)
                        sh.count(f'obs.bfs.{level}.depth{depth}')
                frontier = nxt
    k = 0
    target = {'quick': 60, 'thorough': 3000}[tier]
    while k < target and not sh.out_of_time():
        k += 1
        L = rng.randint(5, 30)
        ops = tuple(rng.choice(DB_OPS + EXTRA_OPS) for _ in range(L))
        run_db_history(sh, ops, typed_mask=rng.getrandbits(L))
        sh.count('obs.db_histories.random')
        ops = tuple(rng.choice(T_OPS) for _ in range(L))
        run_t_history(sh, ops)
        sh.count('obs.t_histories.random')
    sh.count('obs.invariant_evaluations.Database', _contract_counts['db'])
    sh.count('obs.invariant_evaluations.Table', _contract_counts['table'])
    return sh


def conclusive(agg, tier):
    c = agg['counters']
    out = []
    for k in ('obs.db_histories.depth3', 'obs.db_histories.typed', 'obs.t_histories.depth3', 'obs.db_histories.random',
              'obs.invariant_evaluations.Database', 'obs.invariant_evaluations.Table',
              'obs.accepted.add:table', 'obs.rejected.add:table', 'obs.accepted.del:table', 'obs.rejected.del:table',
              'obs.accepted.ren:name', 'obs.accepted.ren:alias', 'obs.rejected.add:ref', 'obs.accepted.add:ref',
              'obs.accepted.addc', 'obs.accepted.delc', 'obs.rejected.addi', 'obs.accepted.deli'):
        if not c.get(k):
            out.append(f'{k} is zero')
    return out


def replay(v):
    sh = Shard(ID)
    attach_contracts()
    case = v['case']
    ops = tuple(tuple(x) for x in case['ops'])
    if case['kind'] == 'dbhist':
        run_db_history(sh, ops, case.get('typed', 0))
    else:
        run_t_history(sh, ops)
    return sh.violations
