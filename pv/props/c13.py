"""C13 — Free text survives: notes normalise idempotently, no text breaks its literal."""
import itertools
import random

from pv import am, gen, surface, walk, monitors, apibuild, sqlread, norm
from pv.common import parse
from pv.result import Shard

ID = 'C13'
MANIFEST = {
    'text': ('Exhaustive strings up to length 3 (quick) / 4 (thorough) over the critical alphabet {a, space, newline, \' , " , '
             'backslash, backtick}, length <= 2 over the extended alphabet { } [ ] # / * : , non-ASCII, and sampled long texts, '
             'placed at every text-bearing site (table / column / index / enum item / group / project / sticky notes, project '
             'field, table and column property value, string default, index name, expression default, expression index subject): '
             '(a) what the real parser stores for a note literal equals my reference normaliser and is a fixed point; (b) the '
             'three string styles store the same value; (c) API-built database -> .dbml -> re-parse returns the same text at '
             'the site and changes no other attribute; (d) in .sql the COMMENT ON body is one string token equal to the text '
             'with quotes neutralised and expressions appear verbatim in parentheses (independent DDL tokenizer).'),
    'note': 'note sites are fed stored (normal-form) texts; whitespace-only notes are a labelled class (the statement does not define their stored form); tab and CR are outside the domain (pyparsing expands tabs before parsing)',
    'technique': 'runtime monitoring: exhaustive short-string sweep per site with reference normaliser, round-trip differential and DDL string-token scan',
}
LEVEL = 'exploration'
BUDGET = {'quick': 120, 'thorough': 420}
RULE = ('(site, text, sub-check); texts enumerated exhaustively to the stated length plus seeded long texts; a case = one text at '
        'one site through one sub-check; distinct by (site, text, sub-check); non-trivial = text is not empty')
ASSUMPTIONS = ['pv/surface.py writes literals that denote exactly the intended text (escaping of backslash and the quote in use)',
               'CPython/pyparsing trusted']
EXHAUSTIVE = {'quick': 'all strings of length <= 3 over 7 critical symbols and of length <= 2 over 17 symbols, at 14 sites',
              'thorough': 'all strings of length <= 4 over 7 critical symbols and of length <= 2 over 17 symbols, at 14 sites'}

CRIT = ['a', ' ', '\n', "'", '"', '\\', '`']
EXT = CRIT + ['{', '}', '[', ']', '#', '/', '*', ':', ',', 'é']
NOTE_SITES = ['tnote', 'cnote', 'inote', 'einote', 'gnote', 'pnote', 'stickytext']
TEXT_SITES = ['projval', 'tprop', 'cprop', 'default', 'ixname']
EXPR_SITES = ['expr', 'ixexpr']
SITE_PATH = {'tnote': '.tables[0].note', 'cnote': '.tables[0].columns[0].note', 'inote': '.tables[0].indexes[0].note',
             'einote': '.enums[0].items[0].note', 'gnote': '.groups[0].note', 'pnote': '.project.note',
             'stickytext': '.stickies[0].text', 'projval': '.project.items[0][1]', 'tprop': '.tables[0].properties[0][1]',
             'cprop': '.tables[0].columns[0].properties[0][1]', 'default': '.tables[0].columns[0].default[1]',
             'ixname': '.tables[0].indexes[0].name', 'expr': '.tables[0].columns[0].default[1]',
             'ixexpr': '.tables[0].indexes[0].subjects[1][1]'}


def site_doc(site, s):
    d = am.Doc(allow_properties=True)
    t = am.Table('public', 'tbl')
    c = am.Column('col', am.ColType('plain', 'int'))
    c2 = am.Column('nbr', am.ColType('plain', 'text'), note='neighbour note', default=am.Default('str', 'neighbour'))
    t.columns += [c, c2]
    ix = am.Index([('col', 'col')], name='ixn')
    t.indexes.append(ix)
    d.tables.append(t)
    d.enums.append(am.Enum('public', 'en', [am.EnumItem('it'), am.EnumItem('it2', note='n2')]))
    d.groups.append(am.Group('grp', [0]))
    d.project = am.Project('prj', [('k', 'v'), ('k2', 'v2')], note='pn')
    d.stickies.append(am.Sticky('stk', 'text'))
    d.stickies.append(am.Sticky('stk2', 'after'))
    if site == 'tnote':
        t.note = s
    elif site == 'cnote':
        c.note = s
    elif site == 'inote':
        ix.note = s
    elif site == 'einote':
        d.enums[0].items[0].note = s
    elif site == 'gnote':
        d.groups[0].note = s
    elif site == 'pnote':
        d.project.note = s
    elif site == 'stickytext':
        d.stickies[0].text = s
    elif site == 'projval':
        d.project.items[0] = ('k', s)
    elif site == 'tprop':
        t.props = [('pk', s), ('pk2', 'w')]
    elif site == 'cprop':
        c.props = [('ck', s), ('ck2', 'w')]
    elif site == 'default':
        c.default = am.Default('str', s)
    elif site == 'ixname':
        ix.name = s
    elif site == 'expr':
        c.default = am.Default('expr', s)
    elif site == 'ixexpr':
        ix.subjects = [('col', 'col'), ('expr', s)]
    d.default_order()
    return d


def get_path(tree, path):
    import re
    cur = tree
    for m in re.finditer(r'\.(\w+)|\[(\d+)\]', path):
        cur = cur[m.group(1)] if m.group(1) else cur[int(m.group(2))]
    return cur


INPLACE = {'tnote': lambda d: d.tables[0].note, 'cnote': lambda d: d.tables[0].columns[0].note, 'inote': lambda d: d.tables[0].indexes[0].note,
           'einote': lambda d: d.enums[0].items[0].note, 'gnote': lambda d: d.table_groups[0].note, 'pnote': lambda d: d.project.note}


def sub_roundtrip(sh, site, s, inplace=False):
    doc = site_doc(site, 'placeholder' if inplace else s)
    tc = norm.text_class(s)
    sh.case([site, s, 'rt'], nontrivial=bool(s), sample={'site': site, 'text': s, 'check': 'roundtrip'})
    sh.count(f'obs.rt.{site}')
    sh.count(f'class.{site}.{tc}')
    case = {'kind': 'c13rt', 'site': site, 'text': s}
    try:
        db = apibuild.build(doc)
        if inplace:
            # the element exists with a one-line text, is rendered once, and the text is then replaced in place
            db.dbml
            INPLACE[site](db).text = s
            sh.count('obs.rt_inplace')
        c0 = am.strip_comments(walk.content(db))
        d1 = db.dbml
    except Exception as e:  # noqa
        cls, where = monitors.classify_exc(e)
        sh.violation('rt', f'rt:render-raises@{site}:{tc}:{cls}', f'{site} {s!r}: {cls}: {e}', case, {'site': site, 'tc': tc})
        return
    db2, err = parse(d1, allow_properties=True)
    if err is not None:
        sh.violation('rt', f'rt:reparse-fails@{site}:{tc}', f'{site} {s!r}: {type(err).__name__}: {err}', dict(case, dbml=d1), {'site': site, 'tc': tc})
        return
    c1 = am.strip_comments(walk.content(db2))
    items = am.diff_items(c0, c1)
    sp = SITE_PATH[site]
    if site in ('default', 'expr'):
        sp = sp[:-len('[1]')]          # kind and value of the default are one site
    for p, a, b in items:
        if p == sp or p.startswith(sp) or sp.startswith(p):
            sh.violation('rt', f'rt:text-altered@{site}:{tc}', f'{site} {s!r}: came back as {b!r}', dict(case, dbml=d1), {'site': site, 'tc': tc})
        else:
            sh.violation('rt', f'rt:neighbour-damaged@{site}:{tc}', f'{site} {s!r}: {p}: {a!r} -> {b!r}', dict(case, dbml=d1), {'site': site, 'tc': tc})
    if not items:
        sh.count('obs.rt_ok')


def sub_api_isolation(sh, s):
    """a text written into one API-built object (property value, note) shows up in that object's rendering only"""
    from pydbml import Database
    from pydbml.classes import Column, Table
    sh.case(['apiiso', s], nontrivial=True, sample={'check': 'api-isolation', 'text': s[:80]})
    sh.count('obs.api_isolation')
    db = Database(allow_properties=True)
    t = Table('isot')
    a, b = Column('isoa', 'int'), Column('isob', 'int')
    t.add_column(a)
    t.add_column(b)
    db.add(t)
    t2 = Table('isou', columns=[Column('isoc', 'int')])
    db.add(t2)
    marker = 'ISOq ' + s
    a.properties['isokey'] = marker
    a.note.text = marker
    try:
        leaks = [n_ for n_, o_ in (('sibling column', b), ('other table', t2), ('column of other table', t2.columns[0])) if 'ISOq' in o_.dbml]
        later = Column('isolater', 'int')
        if later.properties or 'ISOq' in (later.note.text or ''):
            leaks.append('a column built later')
    except Exception as e:  # noqa
        cls, where = monitors.classify_exc(e)
        sh.violation('rt', f'rt:render-raises@api-isolation:{cls}', f'{cls}: {e}', {'kind': 'c13iso', 'text': s})
        return
    if leaks:
        sh.violation('rt', 'rt:text-shows-up-on-another-object@api-built', f'a text written into one column appears in: {leaks}', {'kind': 'c13iso', 'text': s})
    a.properties.clear()


def sub_sql(sh, site, s):
    doc = site_doc(site, s)
    tc = norm.text_class(s)
    case = {'kind': 'c13sql', 'site': site, 'text': s}
    sh.case([site, s, 'sql'], nontrivial=bool(s), sample={'site': site, 'text': s, 'check': 'sql'})
    sh.count(f'obs.sql.{site}')
    try:
        sql = apibuild.build(doc).sql
    except Exception as e:  # noqa
        cls, where = monitors.classify_exc(e)
        sh.violation('sql', f'sql:raises@{site}:{cls}', f'{s!r}: {cls}: {e}', case)
        return
    if site in ('tnote', 'cnote'):
        if not s:
            return
        rd = sqlread.read(sql)
        what = 'TABLE' if site == 'tnote' else 'COLUMN'
        hits = [st for st in rd['statements'] if st['kind'] == 'comment_on' and st['what'] == what
                and st['target'] == (['tbl'] if site == 'tnote' else ['tbl', 'col'])]
        want = s.replace('\\\n', '').replace("'", '"')
        bad = [st for st in rd['statements'] if st['kind'] in ('unknown', 'bad')]
        if len(hits) != 1 or bad:
            sh.violation('sql', f'sql:comment-on-broken@{site}:{tc}', f'{s!r}: {len(hits)} COMMENT ON for the site, {len(bad)} unreadable statements', dict(case, sql=sql))
        elif hits[0]['text'] != want:
            sh.violation('sql', f'sql:comment-on-text@{site}:{tc}', f'{s!r}: body {hits[0]["text"]!r} != {want!r}', dict(case, sql=sql))
        else:
            sh.count('obs.sql_ok')
        # the same statement asked from the element itself (note.sql, table.sql): same protection of the text
        try:
            dbe = apibuild.build(doc)
            el = dbe.tables[0] if site == 'tnote' else dbe.tables[0].columns[0]
            for label, text_ in (('note.sql', el.note.sql), ('table.sql', dbe.tables[0].sql)):
                rd2 = sqlread.read(text_)
                hits2 = [st for st in rd2['statements'] if st['kind'] == 'comment_on' and st['what'] == what
                         and st['target'][-1:] == (['tbl'] if site == 'tnote' else ['col'])]     # (column note.sql names the bare column)
                bad2 = [st for st in rd2['statements'] if st['kind'] in ('unknown', 'bad')]
                sh.count('obs.sql.element_level')
                if len(hits2) != 1 or bad2 or hits2[0]['text'] != want:
                    sh.violation('sql', f'sql:comment-on-broken@{site}.{label}:{tc}', f'{s!r}: {label} gives {text_[:120]!r}', dict(case, sql=text_))
        except Exception as e:  # noqa
            cls, where = monitors.classify_exc(e)
            sh.violation('sql', f'sql:raises@{site}.element:{cls}', f'{s!r}: {cls}: {e}', case)
    else:
        want = f'DEFAULT ({s})' if site == 'expr' else f', ({s}))'
        if want not in sql:
            sh.violation('sql', f'sql:expression-not-verbatim@{site}:{tc}', f'{want!r} not found in sql', dict(case, sql=sql))
        else:
            sh.count('obs.sql_ok')


def sub_normalise(sh, x, site):
    """(a) stored == reference normal form, stored is a fixed point; (b) all applicable string styles agree"""
    ref = norm.note_normal_form(x)
    tc = norm.text_class(x)
    styles = ["'''"] + (["'", '"'] if '\n' not in x else [])
    stored = {}
    for q in styles:
        doc = site_doc(site, x)
        text = surface.render(doc, 0, dict(surface.CANON, strings=q, note_pos='colon' if q != "'''" else 'block'))
        sh.case([site, x, 'norm', q], nontrivial=bool(x), sample={'site': site, 'raw': x, 'style': q, 'check': 'normalise'})
        sh.count('obs.norm')
        case = {'kind': 'c13norm', 'site': site, 'text': x, 'style': q, 'dbml': text}
        db, err = parse(text, allow_properties=True)
        if err is not None:
            cls, where = monitors.classify_exc(err)
            sh.violation('norm', f'norm:literal-rejected@{site}:{tc}:{cls}', f'{x!r} in {q} style: {cls}: {err}', case)
            continue
        got = get_path(walk.content(db), SITE_PATH[site])
        stored[q] = got
        if ref is None:
            sh.count('class.norm.blank')
            if got is None or got.strip(' \t\n') != '':
                sh.violation('norm', f'norm:blank-text-became-nonblank@{site}', f'{x!r} stored as {got!r}', case)
            continue
        if got != ref:
            sh.violation('norm', f'norm:differs-from-reference@{site}:{tc}', f'{x!r} stored as {got!r}, reference {ref!r}', case)
    vals = set(stored.values())
    if len(vals) > 1:
        sh.violation('norm', f'norm:styles-disagree@{site}:{tc}', f'{x!r}: {stored}', {'kind': 'c13norm', 'site': site, 'text': x})
    # fixed point: store the stored value again
    for got in vals:
        if got is None or ref is None:
            continue
        doc = site_doc(site, got)
        text = surface.render(doc, 0, dict(surface.CANON, strings="'''", note_pos='block'))
        db, err = parse(text, allow_properties=True)
        if err is None:
            again = get_path(walk.content(db), SITE_PATH[site])
            if again != got:
                sh.violation('norm', f'norm:not-idempotent@{site}:{tc}', f'N({x!r})={got!r} but N(N(x))={again!r}', {'kind': 'c13norm', 'site': site, 'text': x})
            else:
                sh.count('obs.norm_fixed_point')
    return vals


def strings(tier):
    L = {'quick': 3, 'thorough': 4}[tier]
    out = ['']
    for n in range(1, L + 1):
        out += [''.join(p) for p in itertools.product(CRIT, repeat=n)]
    for n in range(1, 3):
        out += [''.join(p) for p in itertools.product(EXT, repeat=n) if any(ch not in CRIT for ch in p)]
    # targeted: an interior line made of blanks only, with and without indentation around it
    for a in ('a', '  a', "a'"):
        for ws in (' ', '  ', '    ', '      '):
            for b in ('b', '  b', '    b'):
                out.append(a + '\n' + ws + '\n' + b)
    # targeted: blanks at the end of a non-final line; parenthesised expressions; backslashes before quotes
    out += ['a \nb', 'a  \n  b', 'x \n\ny  \nz', '(a)', '(a) + (b)', '(lower(x))', '((a))', 'f(a)', 'a)', '(a',
            "it\\'s", 'C:\\temp', 'a\\\\b', '\\"', 'e\u0301', '\u2126']
    # targeted (coincidences): texts of a particular length, texts with `, ` that make a settings list long, template-like
    # placeholders and back-references, texts spelled like the names / keywords of the host document
    out += ['x' * k for k in (63, 64, 99, 100, 101, 120, 127, 128, 129, 255, 256, 257, 300, 1000, 4096)]
    out += ['w, ' * 40 + 'end', 'first, second', 'a,  b', 'long enough to wrap ' * 6 + ', tail', 'a, b\nc, d']
    out += ['{name}', '{text}', '{0}', '{}', '{{}}', '%s', '%(name)s', '%d', '$name', '${name}', '\\1', '\\g<0>', '{name} and {text}',
            'see {name}', '{note}', '{self}']
    out += ['stk', 'tbl', 'col', 'grp', 'prj', 'it', 'k', 'ixn', 'text', 'name', 'note', 'null', 'true', 'false', 'NULL', 'None', '0', '42', '4.5', '-1', '1e5']
    # targeted: two-character escape look-alikes (a backslash and a letter are two characters everywhere), call-shaped texts
    out += ['\\n', '\\t', 'a\\nb', "E'\\n'", 'C:\\temp\\new', '\\r\\f', '\\u0041', '\\x41', '\\0', 'now()', 'f()', 'gen_random_uuid()', 'max(a)', 'a.b()', '()',
            '`', 'a`b', '(', ')', 'pk', 'unique', 'not null', 'increment', "note: 'x'", 'ref: > t.id', 'default: 1', '[pk]', 'a] [b', '--', '//', '/*', '*/', '/* x */']
    # targeted: runs of quotes in multi-line texts and at the edges
    for core in ("'''", "''''", "a'''", "'''a", "a'''b", "''", "a''", "'a'"):
        out += [core + '\nx', 'x\n' + core, 'x\n' + core + '\ny']
    return out


def long_texts(rng, n):
    out = []
    for _ in range(n):
        paras = []
        for _p in range(rng.randint(1, 4)):
            lines = []
            for _l in range(rng.randint(1, 5)):
                ind = ' ' * rng.choice([0, 0, 2, 4, 8])
                words = [rng.choice(['alpha', 'it\'s', '"q"', 'back\\slash', '`tick`', '# head', '- item', '* star', '{x}', 'naïve', '```', "''", 'a:b', '[l](u)', '| c |', '//', '/* */'])
                         for _w in range(rng.randint(1, 6))]
                lines.append(ind + ' '.join(words))
            paras.append('\n'.join(lines))
        out.append(('\n' * rng.choice([1, 2, 2, 3])).join(paras))
    return out


def plan(tier, seed):
    return [{'shard': i, 'of': 16} for i in range(16)]


def run_shard(spec, tier, seed, budget_s):
    sh = Shard(ID, budget_s)
    i, n = spec['shard'], spec['of']
    rng = random.Random(f'{seed}-c13-long')
    raw = strings(tier) + long_texts(rng, {'quick': 40, 'thorough': 600}[tier])
    # stored forms for note sites
    stored_notes = []
    seen = set()
    for x in raw:
        nf = norm.note_normal_form(x)
        if nf is not None and nf not in seen:
            seen.add(nf)
            stored_notes.append(nf)
    work = []
    for x in raw:
        for site in ('tnote', 'stickytext', 'cnote'):
            work.append(('norm', site, x))
    for s in stored_notes:
        for site in NOTE_SITES:
            work.append(('rt', site, s))
        if '\n' in s or len(s) > 60:
            for site in ('tnote', 'gnote', 'pnote', 'cnote'):
                work.append(('rt-inplace', site, s))
        for site in ('tnote', 'cnote'):
            work.append(('sql', site, s))
    for x in raw:
        for site in TEXT_SITES:
            work.append(('rt', site, x))
        if '`' not in x:
            for site in EXPR_SITES:
                work.append(('rt', site, x))
                work.append(('sql', site, x))
    for x in raw[:400:7]:
        if x and '\n' not in x:
            work.append(('apiiso', 'cprop', x))
    sh.count('obs.work_items_total', len(work) if i == 0 else 0)
    for j, (what, site, s) in enumerate(work):
        if j % n != i:
            continue
        if sh.out_of_time():
            sh.inconclusive.append('exhaustive sweep did not finish in the time budget')
            break
        if what == 'norm':
            sub_normalise(sh, s, site)
        elif what == 'rt':
            sub_roundtrip(sh, site, s)
        elif what == 'rt-inplace':
            sub_roundtrip(sh, site, s, inplace=True)
        elif what == 'apiiso':
            sub_api_isolation(sh, s)
        else:
            sub_sql(sh, site, s)
    return sh


def conclusive(agg, tier):
    c = agg['counters']
    out = [f'site {s} never exercised' for s in NOTE_SITES + TEXT_SITES + EXPR_SITES if not c.get('obs.rt.' + s)]
    for k in ('obs.norm', 'obs.sql.tnote', 'obs.sql.cnote', 'obs.sql.expr', 'obs.rt_ok', 'obs.sql_ok', 'obs.norm_fixed_point'):
        if not c.get(k):
            out.append(f'{k} is zero')
    return out


def replay(v):
    sh = Shard(ID)
    case = v['case']
    if case['kind'] == 'c13rt':
        sub_roundtrip(sh, case['site'], case['text'])
    elif case['kind'] == 'c13sql':
        sub_sql(sh, case['site'], case['text'])
    else:
        sub_normalise(sh, case['text'], case['site'])
    return sh.violations
