"""One schedule experiment in a fresh interpreter (spawned by pv.props.c11).

    python -m pv.c11worker <spec.json>   ->  JSON on stdout

spec: {mode: first|steady, nthreads, rounds, perturb: none|switch|victim, seed, docs: [{text, props}]}

mode first : nothing has been parsed in this process; the threads' parses are the first use of the grammar.
mode steady: one warm-up parse, then the rounds.
Every thread parses its own document with its own PyDBML call; afterwards the same documents are
parsed sequentially in this process and the outcomes are compared (class of exception or content digest).
The order in which threads enter pydbml functions is recorded with sys.monitoring (PY_START) and
compressed to its switch points: that is the interleaving signature.
"""
import json
import os
import random
import sys
import threading
import time


def outcome(text, props):
    from pydbml import PyDBML
    from pv import walk
    from pv.result import digest
    try:
        db = PyDBML(text, allow_properties=props)
    except Exception as e:  # noqa
        return 'EXC:' + type(e).__name__
    try:
        return 'OK:' + digest([walk.content(db), db.dbml, db.sql])
    except Exception as e:  # noqa
        return 'RENDER-EXC:' + type(e).__name__


def main():
    spec = json.load(open(sys.argv[1]))
    rng = random.Random(spec['seed'])
    repo = os.path.realpath(os.environ.get('PV_REPO', '/repo'))
    pkg = os.path.join(repo, 'pydbml') + os.sep
    import pyparsing.core as ppc
    import pydbml  # noqa  (import only: no parse yet)
    if not os.path.realpath(pydbml.__file__).startswith(repo + os.sep):
        print(json.dumps({'error': 'pydbml not imported from ' + repo}))
        return
    mon = sys.monitoring
    order = []            # thread index at each PY_START inside pydbml (compressed later)
    tidx = {}
    REC, DLY = 3, 4
    mon.use_tool_id(REC, 'pv-order')

    def start(code, off):
        if code.co_filename.startswith(pkg):
            i = tidx.get(threading.get_ident())
            if i is not None and (not order or order[-1] != i):
                order.append(i)
            return None
        return mon.DISABLE
    mon.register_callback(REC, mon.events.PY_START, start)
    mon.set_events(REC, mon.events.PY_START)

    victim = {'ident': None}
    delays = [0]
    if spec['perturb'] == 'victim':
        mon.use_tool_id(DLY, 'pv-delay')
        p = spec.get('p', 0.3)

        def line(code, lineno):
            if threading.get_ident() == victim['ident'] and rng.random() < p:
                delays[0] += 1
                time.sleep(0.0005)
        mon.register_callback(DLY, mon.events.LINE, line)
        targets = []
        for cls in vars(ppc).values():
            if isinstance(cls, type):
                f = cls.__dict__.get('streamline')
                if f is not None and hasattr(f, '__code__'):
                    targets.append(f.__code__)
        import pydbml.parser.parser as P
        for cls in vars(P).values():          # every class defined in the parser module (names are not assumed)
            if isinstance(cls, type) and cls.__module__ == P.__name__:
                for name, f in vars(cls).items():
                    f = getattr(f, '__func__', f)
                    if hasattr(f, '__code__') and not name.startswith('__'):
                        targets.append(f.__code__)
        # ... and every function / method of the blueprint and helper modules (where a result is put together)
        import importlib
        for mn in ('pydbml.parser.blueprints', 'pydbml.tools'):
            try:
                M = importlib.import_module(mn)
            except Exception:  # noqa
                continue
            for obj in vars(M).values():
                if getattr(obj, '__module__', None) != M.__name__:
                    continue
                if hasattr(obj, '__code__'):
                    targets.append(obj.__code__)
                elif isinstance(obj, type):
                    for name, f in vars(obj).items():
                        f = getattr(f, '__func__', f)
                        if hasattr(f, '__code__') and not name.startswith('__'):
                            targets.append(f.__code__)
        for c in targets:
            mon.set_local_events(DLY, c, mon.events.LINE)
    if spec['perturb'] in ('switch', 'victim'):
        sys.setswitchinterval(spec.get('switchinterval', 1e-5))

    docs = spec['docs']
    n = spec['nthreads']
    if spec['mode'] == 'reentrant':
        # a parse that starts while another parse of the SAME thread is in progress (the way a finalizer, a signal handler or
        # a tracing hook would start one): the N-th entry into a pydbml function during the outer parse triggers the inner one
        NEST = 5
        mon.use_tool_id(NEST, 'pv-nest')
        st = {'n': 0, 'busy': False, 'inner': None, 'armed': False}
        at = spec.get('at', 40)

        def nest(code, off):
            if st['armed'] and not st['busy'] and code.co_filename.startswith(pkg):
                st['n'] += 1
                if st['n'] == at:
                    st['busy'] = True
                    try:
                        st['inner'] = outcome(docs[1]['text'], docs[1]['props'])
                    finally:
                        st['busy'] = False
            return None
        mon.register_callback(NEST, mon.events.PY_START, nest)
        mon.set_events(NEST, mon.events.PY_START)
        if spec.get('warm'):
            outcome(docs[0]['text'], docs[0]['props'])
        res = {}

        def outer():
            st['armed'] = True
            res['outer'] = outcome(docs[0]['text'], docs[0]['props'])
            st['armed'] = False
        th = threading.Thread(target=outer)
        th.start()
        th.join(60)
        stuck = False
        if th.is_alive():
            fr = sys._current_frames().get(th.ident)
            w0 = (id(fr.f_code), fr.f_lineno, fr.f_lasti) if fr else None
            time.sleep(5)
            fr = sys._current_frames().get(th.ident)
            stuck = th.is_alive() and fr is not None and (id(fr.f_code), fr.f_lineno, fr.f_lasti) == w0
            if stuck:
                print(json.dumps({'reentrant': {'stuck': True, 'entries': st['n']}}))
                sys.stdout.flush()
                os._exit(0)
        mon.set_events(NEST, 0)
        seq = [outcome(d['text'], d['props']) for d in docs[:2]]
        print(json.dumps({'reentrant': {'stuck': False, 'outer': res.get('outer'), 'inner': st['inner'], 'seq': seq, 'entries': st['n'], 'alive': th.is_alive()}}))
        return
    if spec['mode'] == 'steady':
        outcome(docs[0]['text'], docs[0]['props'])
    results = []
    sigs = []
    for rnd in range(spec['rounds']):
        batch = [docs[(rnd * n + k) % len(docs)] for k in range(n)]
        out = [None] * n
        barrier = threading.Barrier(n)
        order.clear()
        tidx.clear()

        def work(k):
            tidx[threading.get_ident()] = k
            if k == spec.get('victim', 0):
                victim['ident'] = threading.get_ident()
            barrier.wait()
            out[k] = outcome(batch[k]['text'], batch[k]['props'])
        ths = [threading.Thread(target=work, args=(k,)) for k in range(n)]
        for t in ths:
            t.start()
        deadline = time.monotonic() + 90
        for t in ths:
            t.join(max(0.1, deadline - time.monotonic()))
        hung = [k for k, t in enumerate(ths) if t.is_alive()]
        stuck = []
        if hung:
            # slow or stuck?  sample where each remaining thread is, twice: a thread that sits at exactly the same
            # instruction after several seconds (and again) is waiting for something that never comes
            def where():
                fr = sys._current_frames()
                return {k: (id(fr[t.ident].f_code), fr[t.ident].f_lineno, fr[t.ident].f_lasti) for k, t in enumerate(ths)
                        if t.is_alive() and t.ident in fr}
            victim['ident'] = None          # no more injected delays
            w0 = where()
            time.sleep(4)
            w1 = where()
            time.sleep(4)
            w2 = where()
            stuck = [k for k in w0 if w1.get(k) == w0[k] and w2.get(k) == w0[k]]
        if stuck:
            mon.set_events(REC, 0)
            results.append({'round': rnd, 'out': out, 'hung': hung, 'stuck': stuck, 'idx': [(rnd * n + k) % len(docs) for k in range(n)]})
            print(json.dumps({'results': results, 'seq': [None] * len(docs), 'sigs': sigs, 'delays': delays[0], 'aborted': 'stuck threads'}))
            sys.stdout.flush()
            os._exit(0)             # (a sequential reference parse might never return either)
        victim['ident'] = None
        sigs.append((len(order), hash(tuple(order)) & 0xffffffff))
        results.append({'round': rnd, 'out': out, 'hung': hung, 'idx': [(rnd * n + k) % len(docs) for k in range(n)]})
    # sequential reference in this very process, afterwards
    mon.set_events(REC, 0)
    sys.setswitchinterval(0.005)
    seq = [outcome(d['text'], d['props']) for d in docs]
    print(json.dumps({'results': results, 'seq': seq, 'sigs': sigs, 'delays': delays[0]}))


if __name__ == '__main__':
    main()
