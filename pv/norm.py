"""Reference implementations written from the property text, not from the code."""


def is_blank(line):
    return line.strip(' \t') == ''


def note_normal_form(x):
    """remove leading/trailing blank lines, then the indentation common to all non-blank lines.
    Returns None for texts without any non-blank line (the statement does not say what is stored then)."""
    lines = x.split('\n')
    while lines and is_blank(lines[0]):
        lines.pop(0)
    while lines and is_blank(lines[-1]):
        lines.pop()
    if not lines:
        return None
    indent = min(len(l) - len(l.lstrip(' \t')) for l in lines if not is_blank(l))
    return '\n'.join(l[indent:] for l in lines)


def text_class(s):
    """features of a text that the known escaping mechanisms depend on"""
    f = []
    if '\n' in s:
        f.append('ml')
    if "'''" in s:
        f.append('q3')
    elif s.endswith("'") or "''" in s:
        f.append('q2')
    lines = s.split('\n')
    if any(l != '' and is_blank(l) for l in lines[1:-1]):
        f.append('wsline')
    if s.strip(' \t\n') == '':
        f.append('blank')
    if '\\' in s:
        f.append('bs')
    if s.lower() in ('null', 'true', 'false'):
        f.append('kw')         # spelled like one of the bare default keywords
    return '+'.join(f) or 'plain'
