"""Generators of abstract documents (pv.am).  Deterministic functions of a
random.Random.  Every generated name / text carries a unique serial token so
that an observed string identifies the declaration it came from."""
import itertools
import random

from pv import am

ACTIONS = ['no action', 'restrict', 'cascade', 'set null', 'set default']
INDEX_TYPES = ['brin', 'btree', 'gin', 'gist', 'hash', 'spgist']
REF_KINDS = ['>', '<', '-', '<>']
RESERVED = ['table', 'enum', 'ref', 'note', 'indexes', 'project', 'tablegroup', 'as', 'pk',
            'unique', 'null', 'increment', 'default', 'true', 'false', 'primary', 'not',
            'name', 'type', 'update', 'delete', 'color', 'headercolor']


KW_PREFIXES = ['note', 'notes', 'indexes', 'index', 'ref', 'refs', 'table', 'tablegroup', 'enum', 'pk', 'pkey', 'unique', 'null', 'nullable',
               'not', 'notnull', 'default', 'increment', 'primary', 'as', 'asof', 'project', 'name', 'type', 'update', 'delete', 'color',
               'headercolor', 'true', 'false', 'hash', 'btree', 'cascade', 'restrict', 'set', 'no', 'Note', 'TABLE', 'Ref', 'AS', 'NULL']


class Namer:
    """unique identifiers in several flavours"""

    def __init__(self, rng, flavours=('bare',), override=None, coin=False):
        self.rng = rng
        self.n = 0
        self.flavours = flavours
        self.override = override or {}    # prefix -> flavour (wins over the caller's choice)
        self.reserved_used = set()
        self.coin = coin
        self.issued = {}
        self.all_issued = set()
        self.classes = set()

    COIN_PREFIXES = ('t', 'c', 'e', 'ei', 'al', 'g', 'sn', 'r', 's', 'p')

    def __call__(self, prefix, flavour=None):
        name = self._make(prefix, flavour)
        if self.coin and prefix in self.COIN_PREFIXES and name not in RESERVED and name.lower() not in RESERVED:
            # coincidence classes (learned from the fourth mutation round): names of a particular length, names that differ
            # from another one only in letter case, an element called like the default schema
            r = self.rng.random()
            prev = self.issued.setdefault(prefix, [])
            if r < 0.02:
                k = self.rng.choice([61, 64, 70, 126, 129, 200, 260])
                name = name[:-1] + '_' + 'L' * k + name[-1]
                self.classes.add('long-name')
            elif r < 0.04 and prev:
                cand = self.rng.choice(prev).swapcase()
                if cand not in self.all_issued and cand.swapcase() != cand:
                    name = cand
                    self.classes.add('case-twin')
            elif r < 0.05 and prefix in ('t', 'e', 'g', 'c') and 'public' not in self.all_issued:
                name = 'public'
                self.classes.add('named-public')
            elif r < 0.065 and prefix == 'e':
                cand = self.rng.choice(['interval', 'Year', 'date', 'time', 'json', 'float', 'double', 'real', 'char', 'blob', 'enum', 'string', 'number'])
                if cand not in self.all_issued:
                    name = cand
                    self.classes.add('enum-named-like-sql-type')
            prev.append(name)
        self.all_issued.add(name)
        return name

    def _make(self, prefix, flavour=None):
        self.n += 1
        f = flavour or self.rng.choice(self.flavours)
        if prefix in self.override:
            f = self.override[prefix]
        base = f'{prefix}{self.n}'
        if f.startswith('reserved:'):
            # a reserved word used as a name: once per document (names must stay unique)
            w = f.split(':', 1)[1]
            if w not in self.reserved_used:
                self.reserved_used.add(w)
                return w
            f = 'bare'
        if f == 'kwprefix':  # a plain word that starts with (or is) a DBML keyword; bare-legal, so it may be written unquoted
            kw = self.rng.choice(KW_PREFIXES)
            return kw + self.rng.choice(['', '_', 's_', 'x']) + str(self.n)
        if f == 'tok':      # substring-free unique token (digits are always followed by q)
            return base + 'q'
        if f == 'bare':
            return base + self.rng.choice(['', '_', '_x', 'Z'])
        if f == 'upper':
            return base.upper() + '_U'
        if f == 'digit':
            return f'{self.n}{prefix}'
        if f == 'space':
            return base + ' sp'
        if f == 'dash':
            return base + '-d'
        if f == 'unicode':
            return base + self.rng.choice(['é', 'ж', '名', 'ß', 'ı', 'İ', 'ſ', '\u212a', 'ǅ', 'ﬁ'])
        if f == 'bslash':   # names are literal: a backslash is an ordinary character of a quoted name
            return base + self.rng.choice(['\\', '\\n', 'a\\b', '\\\\x'])
        if f == 'punct':
            return base + self.rng.choice(["'", '#', '/', '!', '@', '$', '%', '&', '*', '+', '=', '?', '~', '|', ';', ':', '<', '>'])
        if f == 'hostile':
            return base + self.rng.choice(['.', ',', '(', ')', '{', '}', '[', ']'])
        raise ValueError(f)


CORE_FLAVOURS = ('bare', 'bare', 'bare', 'bare', 'upper', 'upper', 'digit', 'digit', 'space', 'space', 'dash', 'dash', 'unicode', 'unicode', 'bslash')

PLAIN_WORDS = ['alpha', 'beta', 'gamma', 'delta', 'user id', 'to include unit number', 'x', 'Total', 'naïve', '数据', 'New  York']
RICH_BITS = ["it's", 'say "hi"', 'a\\b', 'back`tick', '{x}', '{0}', '[y]', '# hash', '// not a comment',
             '/* nor this */', 'a: b', 'semi;colon', "'''", '%s', 'tab-less', '<>', 'Table t {', '}', 'zw\ufeffnbsp', '\ufeff']


class Texts:
    def __init__(self, rng, profile='plain', coin=False):
        self.rng = rng
        self.n = 0
        self.profile = profile
        self.coin = coin

    def line(self, tag='x'):
        self.n += 1
        words = [f'{tag}{self.n}']
        for _ in range(self.rng.randint(0, 3)):
            words.append(self.rng.choice(PLAIN_WORDS))
        if self.profile == 'rich' and self.rng.random() < 0.6:
            words.insert(self.rng.randint(0, len(words)), self.rng.choice(RICH_BITS))
        if self.coin and self.rng.random() < 0.02:
            words.append('long' + 'L' * self.rng.choice([60, 70, 100, 130, 260, 300]))     # texts of a particular length
        if self.coin and tag != 'd' and self.rng.random() < 0.02:      # (not in string defaults: SQL writes them unquoted)
            words.append(self.rng.choice(['a, b', 'x,  y', '{name}', '{text}', 'end,']))
        return ' '.join(words)

    def note(self, tag='n', multiline_p=0.3):
        """a note text in normal form"""
        if self.coin and self.rng.random() < 0.015:
            return ''            # an explicitly written empty note (falsy, like no note at all)
        if self.rng.random() >= multiline_p:
            return self.line(tag)
        k = self.rng.randint(2, 4)
        lines = []
        for i in range(k):
            ind = '' if i == 0 else ' ' * self.rng.choice([0, 0, 2, 4])
            lines.append(ind + self.line(tag))
            if i < k - 1 and self.rng.random() < 0.25:
                lines.append('')
                if self.rng.random() < 0.3:
                    lines.append('')          # two consecutive empty lines inside a text
                    if self.coin and self.rng.random() < 0.4:
                        lines += [''] * self.rng.choice([1, 2, 4])      # ... or three and more
        # normal form: min indent 0 is guaranteed by the first line
        return '\n'.join(lines)

    def comment(self, tag='c', multiline_p=0.25):
        if self.rng.random() >= multiline_p:
            return self.line(tag)
        return '\n'.join(self.line(tag) for _ in range(self.rng.randint(2, 3)))


def hexcolor(rng):
    n = rng.choice([3, 6])
    return '#' + ''.join(rng.choice('0123456789abcdefABCDEF') for _ in range(n))


def rand_default(rng, tx, kinds=None):
    kind = rng.choice(kinds or ['int', 'float', 'bool', 'str', 'expr', 'null'])
    if kind == 'int':
        return am.Default('int', rng.choice([0, 1, 7, 42, 1000000, 12345678901234567890]))
    if kind == 'float':
        return am.Default('float', rng.choice([0.0, 0.5, 1.25, 3.14, 100.0, 12345.678, 3.14159265, 2.718281828459, 0.0001,
                                                0.30000000000000004, 1.0000000000000002, 123456789.12345679]))
    if kind == 'bool':
        return am.Default('bool', rng.random() < 0.5)
    if kind == 'null':
        return am.Default('null', None)
    if kind == 'expr':
        return am.Default('expr', rng.choice(['now()', 'id * 2', "concat('a', 'b')", 'uuid_generate_v4()', '(1 + 2)', '(a) + (b)',
                                              "regexp_replace(body, E'\\n', ' ')", 'a  +  b', '', ' ', "replace(p, 'C:\\temp', '\\t')"]))
    return am.Default('str', tx.line('d'))


def rand_type(rng, nm, doc, enum_p=0.25):
    if doc.enums and rng.random() < enum_p:
        return am.ColType('enum', enum=rng.randrange(len(doc.enums)))
    k = rng.choice(['plain', 'plain', 'plain', 'args', 'args', 'array', 'dotted', 'quoted', 'qarray'])
    base = rng.choice(['int', 'integer', 'varchar', 'text', 'timestamp', 'decimal', 'bool', 'uuid', 'jsonb', 'serial', 'bigserial', 'smallserial',
                       'serial4', 'SERIAL', 'int4', 'money'])
    if k == 'plain':
        return am.ColType('plain', base)
    if k == 'args':
        return am.ColType('args', base + rng.choice(['(255)', '(10,2)', '(10, 2)', '(10,  2)', "('a','b')", '(max)']))
    if k == 'array':
        return am.ColType('array', base + '[]')
    if k == 'qarray':
        return am.ColType('qarray', rng.choice([base + '(255)', base + '(10,2)', 'double precision', base + ' with time zone']) + '[]')
    if k == 'dotted':
        return am.ColType('dotted', nm('ts', 'bare') + '.' + nm('ty', 'bare'))
    return am.ColType('quoted', nm('qt', 'space'))


def random_doc(rng, size='small', text_profile='plain', flavours=CORE_FLAVOURS, props=False,
               comments=True, ml_small_notes=True, override=None, coin=True, kwstrings=False):
    """ml_small_notes: allow multi-line notes on columns / indexes / enum items
    coin: coincidence classes (long / case-twin / 'public' names, long texts, expression == column name, mirrored inline
    references, sticky notes with equal names); kwstrings: string defaults spelled like a keyword ('true', 'null')"""
    nm = Namer(rng, flavours, override, coin=coin)
    small_ml = 0.3 if ml_small_notes else 0.0
    tx = Texts(rng, text_profile, coin=coin)
    doc = am.Doc(allow_properties=props)
    big = {'tiny': 1, 'small': 2, 'medium': 4, 'large': 8}[size]
    schemas = ['public', 'public', 'public', nm('s'), nm('s')]
    if rng.random() < 0.15:
        schemas.append(rng.choice(['Public', 'PUBLIC', 'publi', 'public_']))   # not the default schema: must stay qualified

    def maybe(p, f):
        return f() if rng.random() < p else None

    # enums
    for _ in range(rng.randint(0, big)):
        e = am.Enum(rng.choice(schemas), nm('e'), comment=maybe(0.3 if comments else 0, lambda: tx.comment()))
        for _ in range(rng.randint(1, 4 if big < 8 else 9)):
            e.items.append(am.EnumItem(nm('ei'), note=maybe(0.3, lambda: tx.note('ein', small_ml)),
                                       comment=maybe(0.25 if comments else 0, lambda: tx.comment())))
        doc.enums.append(e)
    # tables
    for _ in range(rng.randint(1, 2 + big)):
        t = am.Table(rng.choice(schemas), nm('t'))
        t.alias = maybe(0.35, lambda: nm('al'))
        if rng.random() < 0.04:
            t.alias = t.name                      # an alias spelled like the table's own bare name is legal
        t.note = maybe(0.4, lambda: tx.note('tn'))
        t.header_color = maybe(0.3, lambda: hexcolor(rng))
        t.comment = maybe(0.3 if comments else 0, lambda: tx.comment())
        if props:
            for _ in range(rng.choice([0, 0, 1, 2, 3])):
                t.props.append((nm('pk'), tx.line('pv') if rng.random() > 0.08 else rng.choice(['true', 'false', 'null', 'NULL', '42', '4.5'])))
        pk_layout = rng.choice(['none', 'single', 'single', 'composite', 'index'])
        ncols = rng.randint(1, 2 + big)
        if pk_layout == 'composite':
            ncols = max(ncols, 2)
        if pk_layout == 'single':
            pk_at = {rng.randrange(ncols)}               # not necessarily the first column
        elif pk_layout == 'composite':
            pk_at = set(rng.sample(range(ncols), rng.randint(2, min(3, ncols))))
        else:
            pk_at = set()
        for ci in range(ncols):
            c = am.Column(nm('c'), rand_type(rng, nm, doc))
            if ci in pk_at:
                c.pk = True
            c.unique = rng.random() < 0.2
            c.not_null = rng.random() < 0.3
            c.explicit_null = (not c.not_null) and rng.random() < 0.1
            c.autoinc = rng.random() < 0.15
            c.default = maybe(0.4, lambda: rand_default(rng, tx))
            if kwstrings and rng.random() < 0.05:
                c.default = am.Default('str', rng.choice(['true', 'false', 'null', 'True', 'NULL', 'Null', 'FALSE']))
            if coin and c.default is not None and c.default.kind == 'str' and rng.random() < 0.05:
                c.default = am.Default('str', rng.choice(['42', '4.5', '0', '-1', '1e5', 'now()', c.name if "'" not in c.name and '\\' not in c.name else 'x']))
            c.note = maybe(0.3, lambda: tx.note('cn', small_ml))
            c.comment = maybe(0.2 if comments else 0, lambda: tx.comment())
            if props:
                for _ in range(rng.choice([0, 0, 1, 2])):
                    c.props.append((nm('ck'), tx.line('cv') if rng.random() > 0.08 else rng.choice(['true', 'false', 'null', 'NULL', '42', '4.5'])))
            t.columns.append(c)
        for _ in range(rng.choice([0, 0, 1, 2, 3])):
            k = rng.randint(1, min(3, len(t.columns)))
            subj = [('col', c.name) for c in rng.sample(t.columns, k)]
            if rng.random() < 0.3:
                subj.insert(rng.randint(0, len(subj)), ('expr', rng.choice(['id*2', 'lower(name)', 'a + b', "coalesce(x, 'y')"])))
            if coin and rng.random() < 0.06:
                # an expression whose text is spelled exactly like a column of the table
                cn = rng.choice(t.columns).name
                if '`' not in cn and '\n' not in cn:
                    subj.insert(rng.randint(0, len(subj)), ('expr', cn))
                    doc.classes.add('expr-equals-column-name')
            ix = am.Index(subj)
            ix.name = maybe(0.4, lambda: tx.line('ixn'))
            ix.unique = rng.random() < 0.3
            ix.type = maybe(0.4, lambda: rng.choice(INDEX_TYPES))
            ix.note = maybe(0.3, lambda: tx.note('ixnote', small_ml))
            ix.comment = maybe(0.2 if comments else 0, lambda: tx.comment())
            t.indexes.append(ix)
        if coin and rng.random() < 0.06:
            # an index over five and more subjects
            subj = [('col', c.name) for c in t.columns] + [('expr', x) for x in ['id*2', 'lower(name)', 'a + b', 'now()', 'x', 'y']]
            rng.shuffle(subj)
            t.indexes.append(am.Index(subj[:rng.randint(5, min(9, len(subj)))], unique=rng.random() < 0.5))
            doc.classes.add('index-many-subjects')
        if pk_layout == 'index':
            k = rng.randint(1, min(2, len(t.columns)))
            t.indexes.insert(rng.randint(0, len(t.indexes)), am.Index([('col', c.name) for c in t.columns[:k]], pk=True))
        doc.tables.append(t)
    # references: every unordered endpoint pair at most once
    used = set()
    m2m_pairs = set()

    def endpoint_pair(k):
        for _ in range(20):
            t1 = rng.randrange(len(doc.tables))
            t2 = rng.randrange(len(doc.tables))
            a, b = doc.tables[t1], doc.tables[t2]
            if len(a.columns) < k or len(b.columns) < k:
                continue
            c1 = [c.name for c in rng.sample(a.columns, k)]
            c2 = [c.name for c in rng.sample(b.columns, k)]
            key = frozenset([(t1, tuple(c1)), (t2, tuple(c2))])
            if key in used or (t1 == t2 and set(c1) & set(c2)):
                continue
            used.add(key)
            return t1, c1, t2, c2
        return None
    for ti, t in enumerate(doc.tables):
        for c in t.columns:
            if rng.random() < 0.2:
                for _ in range(rng.choice([1, 1, 1, 2, 3] if big >= 4 else [1, 1, 1, 2])):
                    for _try in range(10):
                        t2 = rng.randrange(len(doc.tables))
                        c2 = rng.choice(doc.tables[t2].columns).name
                        key = frozenset([(ti, (c.name,)), (t2, (c2,))])
                        if key in used or (ti == t2 and c2 == c.name):
                            continue
                        used.add(key)
                        kind = rng.choice(['>', '<', '-'])
                        c.inline_refs.append(am.InlineRef(kind, t2, c2))
                        if coin and rng.random() < 0.06 and (ti != t2):
                            # the same relationship declared a second time from the other end (mirrored) or with another
                            # kind from the same end: two references that lead to the same FOREIGN KEY clause
                            if rng.random() < 0.5:
                                mk = {'>': '<', '<': '>', '-': '-'}[kind]
                                tc = next(x for x in doc.tables[t2].columns if x.name == c2)
                                if not any((q.kind, q.target, q.col) == (mk, ti, c.name) for q in tc.inline_refs):
                                    tc.inline_refs.append(am.InlineRef(mk, ti, c.name))
                                    doc.classes.add('mirrored-inline-ref')
                            else:
                                k2_ = rng.choice([k_ for k_ in ('>', '<', '-') if k_ != kind])
                                if not any((q.kind, q.target, q.col) == (k2_, t2, c2) for q in c.inline_refs):
                                    c.inline_refs.append(am.InlineRef(k2_, t2, c2))
                                    doc.classes.add('mirrored-inline-ref')
                        break
    for _ in range(rng.randint(0, 1 + big)):
        k = rng.choice([1, 1, 1, 2, 3])
        ep = endpoint_pair(k)
        if ep is None:
            continue
        r = am.Ref(rng.choice(REF_KINDS), *ep)
        if r.kind == '<>':
            # the join table is named <left>_<right>: at most one <> per ordered table pair
            if (r.t1, r.t2) in m2m_pairs:
                r.kind = rng.choice(['>', '<', '-'])
            else:
                m2m_pairs.add((r.t1, r.t2))
        r.name = maybe(0.4, lambda: nm('r', rng.choice(['bare', 'bare', 'space', 'unicode'])))
        r.on_update = maybe(0.3, lambda: rng.choice(ACTIONS))
        r.on_delete = maybe(0.3, lambda: rng.choice(ACTIONS))
        r.comment = maybe(0.25 if comments else 0, lambda: tx.comment())
        r.form = rng.choice(['short', 'block'])
        doc.refs.append(r)
    # groups
    for _ in range(rng.choice([0, 0, 1, 2])):
        k = rng.randint(0, len(doc.tables))
        g = am.Group(nm('g'), rng.sample(range(len(doc.tables)), k))
        g.note = maybe(0.4, lambda: tx.note('gn'))
        g.color = maybe(0.3, lambda: hexcolor(rng))
        g.comment = maybe(0.3 if comments else 0, lambda: tx.comment())
        doc.groups.append(g)
    for _ in range(rng.choice([0, 0, 1, 2])):
        doc.stickies.append(am.Sticky(nm('sn'), tx.note('st', 0.5) if rng.random() > 0.04 else ''))
    if coin and doc.stickies and rng.random() < 0.1:
        doc.stickies.append(am.Sticky(doc.stickies[0].name, tx.note('st', 0.5)))      # two sticky notes may share a name
        doc.classes.add('sticky-same-name')
    if rng.random() < 0.5:
        p = am.Project(nm('p'))
        for _ in range(rng.randint(0, 3)):
            p.items.append((nm('k', 'bare'), tx.line('pv')))
        p.note = maybe(0.5, lambda: tx.note('pn'))
        p.comment = maybe(0.3 if comments else 0, lambda: tx.comment())
        doc.project = p
    if coin:
        # a string default spelled exactly like an item of the column's own enum
        for t in doc.tables:
            for c in t.columns:
                if c.type.kind == 'enum' and rng.random() < 0.15:
                    itn = rng.choice(doc.enums[c.type.enum].items).name
                    if "'" not in itn and '\\' not in itn and '\n' not in itn:
                        c.default = am.Default('str', itn)
                        doc.classes.add('default-equals-enum-item')
        # two references with one name
        named = [r for r in doc.refs if r.name is not None]
        if named and len(doc.refs) >= 2 and rng.random() < 0.15:
            o_ = rng.choice([r for r in doc.refs if r is not named[0]])
            o_.name = named[0].name
            doc.classes.add('reference-name-twice')
        # a standalone reference over the endpoints of an inline one, with another kind (two different relationships)
        inl = [(ti, c, r) for ti, t in enumerate(doc.tables) for c in t.columns for r in c.inline_refs if r.target != ti]
        if inl and rng.random() < 0.08:
            ti, c, r = rng.choice(inl)
            kind2 = rng.choice([k_ for k_ in ('>', '<', '-') if k_ != r.kind])
            if (kind2, ti, (c.name,), r.target, (r.col,)) not in ref_keys(doc):
                doc.refs.append(am.Ref(kind2, ti, [c.name], r.target, [r.col], form=rng.choice(['short', 'block'])))
                doc.classes.add('standalone-twin-of-inline-ref')
        # an enum called exactly like a table of the same schema (different kinds of element, no clash)
        if doc.enums and rng.random() < 0.06:
            e, t = rng.choice(doc.enums), rng.choice(doc.tables)
            if not any(x is not e and (x.schema, x.name) == (t.schema, t.name) for x in doc.enums):
                e.schema, e.name = t.schema, t.name
                doc.classes.add('enum-named-like-table')
        # a schema-qualified enum whose (quoted) name contains a dot
        for e in doc.enums:
            if e.schema != 'public' and '.' not in e.name and rng.random() < 0.04:
                e.name = e.name + '.dotted'
                doc.classes.add('dotted-enum-name')
        # a second index flagged pk in the same table
        for t in doc.tables:
            if any(ix.pk for ix in t.indexes) and len(t.columns) >= 2 and rng.random() < 0.15:
                t.indexes.append(am.Index([('col', t.columns[-1].name)], pk=True))
                doc.classes.add('two-pk-indexes')
    doc.default_order()
    rng.shuffle(doc.order)
    doc.classes |= nm.classes
    return doc


def ref_keys(doc):
    """identity of every reference of the document as the library compares them: (kind, table 1, columns 1, table 2, columns 2)"""
    keys = set()
    for ti, t in enumerate(doc.tables):
        for c in t.columns:
            for r in c.inline_refs:
                keys.add((r.kind, ti, (c.name,), r.target, (r.col,)))
    for r in doc.refs:
        keys.add((r.kind, r.t1, tuple(r.cols1), r.t2, tuple(r.cols2)))
    return keys


def features(doc):
    """coarse feature vector (for 'non-trivial' and class counters)"""
    f = set(getattr(doc, 'classes', ()))
    if doc.enums:
        f.add('enum')
    if doc.refs:
        f.add('ref')
    if doc.groups:
        f.add('group')
    if doc.stickies:
        f.add('sticky')
    if doc.project:
        f.add('project')
    for t in doc.tables:
        if t.schema != 'public':
            f.add('schema')
        if t.alias:
            f.add('alias')
        if t.indexes:
            f.add('index')
        if t.note is not None:
            f.add('tnote')
        if t.props:
            f.add('tprops')
        if sum(c.pk for c in t.columns) > 1:
            f.add('composite_pk')
        for c in t.columns:
            if c.inline_refs:
                f.add('inline_ref')
            if c.default is not None:
                f.add('default_' + c.default.kind)
            if c.type.kind != 'plain':
                f.add('type_' + c.type.kind)
            if c.props:
                f.add('cprops')
    for r in doc.refs:
        f.add('ref' + r.kind)
        if len(r.cols1) > 1:
            f.add('composite_ref')
    return f


def inline_to_standalone(doc, rng=None):
    """Metamorphic variant: every inline reference rewritten as a standalone one
    placed right after its table (same order of appearance).  Expected content is
    equal except for `inline`."""
    import copy
    d = copy.deepcopy(doc)
    new_order = []
    for kind, idx in d.order:
        new_order.append((kind, idx))
        if kind == 't':
            t = d.tables[idx]
            for c in t.columns:
                for r in c.inline_refs:
                    d.refs.append(am.Ref(r.kind, idx, [c.name], r.target, [r.col],
                                         form=(rng.choice(['short', 'block']) if rng else 'short')))
                    new_order.append(('r', len(d.refs) - 1))
                c.inline_refs = []
    d.order = new_order
    return d


# ---------------------------------------------------------------------------
# exhaustive per-element products (do not depend on the seed except for names/texts)

def _host(nm, ncols=2):
    """a minimal target table used by product documents"""
    t = am.Table('public', nm('host', 'bare'))
    for _ in range(ncols):
        t.columns.append(am.Column(nm('hc', 'bare'), am.ColType('plain', 'int')))
    return t


def column_product(rng, per_doc=8):
    """every combination of pk/unique/not_null/autoinc x default kind x note shape
    x inline ref kind x type shape; `per_doc` columns per table"""
    nm = Namer(rng, CORE_FLAVOURS)
    tx = Texts(rng, 'plain')
    combos = list(itertools.product(
        [False, True], [False, True], [False, True], [False, True],
        [None, 'int', 'float', 'bool', 'str', 'expr', 'null'],
        [None, 'line', 'multi'],
        [None, '>', '<', '-'],
        ['plain', 'args', 'array', 'enum', 'enum_schema', 'dotted', 'quoted']))
    docs = []
    for at in range(0, len(combos), per_doc):
        doc = am.Doc()
        doc.enums.append(am.Enum('public', nm('e'), [am.EnumItem(nm('ei'))]))
        doc.enums.append(am.Enum(nm('s'), nm('e'), [am.EnumItem(nm('ei'))]))
        host = _host(nm)
        t = am.Table('public', nm('t'))
        doc.tables += [host, t]
        for pk, uq, nn, ai, dk, note, rk, tk in combos[at:at + per_doc]:
            if tk == 'enum':
                ty = am.ColType('enum', enum=0)
            elif tk == 'enum_schema':
                ty = am.ColType('enum', enum=1)
            elif tk == 'plain':
                ty = am.ColType('plain', 'int')
            elif tk == 'args':
                ty = am.ColType('args', 'varchar(255)')
            elif tk == 'array':
                ty = am.ColType('array', 'int[]')
            elif tk == 'dotted':
                ty = am.ColType('dotted', nm('ts', 'bare') + '.' + nm('ty', 'bare'))
            else:
                ty = am.ColType('quoted', nm('qt', 'space'))
            c = am.Column(nm('c'), ty, pk=pk, unique=uq, not_null=nn, autoinc=ai)
            if dk:
                c.default = rand_default(rng, tx, [dk])
            if note == 'line':
                c.note = tx.note('cn', 0)
            elif note == 'multi':
                c.note = tx.note('cn', 1)
            if rk:
                c.inline_refs.append(am.InlineRef(rk, 0, rng.choice(host.columns).name))
            t.columns.append(c)
        doc.default_order()
        docs.append(doc)
    return docs


def index_product(rng, per_doc=6):
    nm = Namer(rng, CORE_FLAVOURS)
    tx = Texts(rng, 'plain')
    combos = list(itertools.product(
        ['one', 'two', 'expr', 'mix'], [False, True], [False, True],
        [None] + INDEX_TYPES, [False, True], [None, 'line', 'multi']))
    docs = []
    for at in range(0, len(combos), per_doc):
        doc = am.Doc()
        t = am.Table(rng.choice(['public', nm('s')]), nm('t'))
        for _ in range(3):
            t.columns.append(am.Column(nm('c'), am.ColType('plain', 'int')))
        for shape, uq, pk, ty, named, note in combos[at:at + per_doc]:
            cols = [c.name for c in t.columns]
            if shape == 'one':
                subj = [('col', rng.choice(cols))]
            elif shape == 'two':
                subj = [('col', x) for x in rng.sample(cols, 2)]
            elif shape == 'expr':
                subj = [('expr', rng.choice(['id*2', 'lower(name)', 'now()']))]
            else:
                subj = [('col', cols[0]), ('expr', 'a + b'), ('col', cols[2])]
            ix = am.Index(subj, unique=uq, pk=pk, type=ty)
            if named:
                ix.name = tx.line('ixn')
            if note:
                ix.note = tx.note('ixnote', 0 if note == 'line' else 1)
            t.indexes.append(ix)
        doc.tables.append(t)
        doc.default_order()
        docs.append(doc)
    return docs


def header_product(rng):
    """table header / enum / group / project / sticky shapes"""
    nm = Namer(rng, CORE_FLAVOURS)
    tx = Texts(rng, 'plain')
    docs = []
    for schema, alias, color, note in itertools.product(
            [False, True], [False, True], [None, 3, 6], [None, 'line', 'multi']):
        doc = am.Doc()
        t = am.Table(nm('s') if schema else 'public', nm('t'))
        t.alias = nm('al') if alias else None
        t.header_color = None if color is None else '#' + ''.join(rng.choice('0123456789abcdefABCDEF') for _ in range(color))
        t.note = None if note is None else tx.note('tn', 0 if note == 'line' else 1)
        t.columns.append(am.Column(nm('c'), am.ColType('plain', 'int')))
        doc.tables.append(t)
        # an enum, a group, a sticky note and a project in the same shapes
        e = am.Enum(nm('s') if schema else 'public', nm('e'))
        for k in range(1 + (color or 0) % 3):
            e.items.append(am.EnumItem(nm('ei'), note=None if note is None else tx.note('en', 0 if note == 'line' else 1)))
        doc.enums.append(e)
        g = am.Group(nm('g'), [0] if alias else [])
        g.color = t.header_color
        g.note = t.note and tx.note('gn', 0 if note == 'line' else 1)
        doc.groups.append(g)
        doc.stickies.append(am.Sticky(nm('sn'), tx.note('st', 0 if note != 'multi' else 1)))
        p = am.Project(nm('p'))
        for _ in range((color or 0) % 4):
            p.items.append((nm('k', 'bare'), tx.line('pv')))
        p.note = None if note is None else tx.note('pn', 0 if note == 'line' else 1)
        doc.project = p
        doc.default_order()
        rng.shuffle(doc.order)
        docs.append(doc)
    return docs


def ref_product(rng, per_doc=6, full_actions=True):
    nm = Namer(rng, CORE_FLAVOURS)
    acts = [None] + ACTIONS
    if full_actions:
        pairs = list(itertools.product(acts, acts))
    else:   # pairwise-ish cover: every action on each side at least once with every other? use diagonal bands
        pairs = [(a, acts[(i + s) % len(acts)]) for s in (0, 1, 3) for i, a in enumerate(acts)]
    combos = list(itertools.product(REF_KINDS, ['short', 'block'], pairs, [None, 'bare', 'space'], [1, 2, 3]))
    docs = []
    for at in range(0, len(combos), per_doc):
        doc = am.Doc()
        for _ in range(3):
            t = am.Table(rng.choice(['public', 'public', nm('s')]), nm('t'))
            t.alias = nm('al') if rng.random() < 0.5 else None
            for _ in range(4):
                t.columns.append(am.Column(nm('c'), am.ColType('plain', 'int')))
            doc.tables.append(t)
        used = set()
        m2m = set()
        for kind, form, (ou, od), name, k in combos[at:at + per_doc]:
            for _try in range(50):
                t1, t2 = rng.randrange(3), rng.randrange(3)
                if kind == '<>' and (t1, t2) in m2m:
                    continue
                c1 = tuple(c.name for c in rng.sample(doc.tables[t1].columns, k))
                c2 = tuple(c.name for c in rng.sample(doc.tables[t2].columns, k))
                key = frozenset([(t1, c1), (t2, c2)])
                if key in used or (t1 == t2 and set(c1) & set(c2)):
                    continue
                used.add(key)
                if kind == '<>':
                    m2m.add((t1, t2))
                break
            else:
                continue
            r = am.Ref(kind, t1, list(c1), t2, list(c2), on_update=ou, on_delete=od, form=form)
            r.api_inline = rng.random() < 0.4
            if name:
                r.name = nm('r', name)
            doc.refs.append(r)
        doc.default_order()
        rng.shuffle(doc.order)
        docs.append(doc)
    return docs


def sql_column_product(rng, per_table=6):
    """C03: flags x default (incl. every falsy value) x type shape, in tables cycling through
    the pk layouts none / single / composite / pk index / composite + pk index, public and other schema"""
    nm = Namer(rng, CORE_FLAVOURS)
    tx = Texts(rng, 'plain')
    defaults = [None, ('int', 0), ('int', 7), ('float', 0.0), ('float', 1.5), ('bool', False), ('bool', True),
                ('str', ''), ('str', None), ('expr', None), ('null', None)]
    combos = list(itertools.product([False, True], [False, True], [False, True], defaults,
                                    ['plain', 'args', 'array', 'enum', 'enum_schema', 'quoted']))
    layouts = ['none', 'single', 'composite', 'pkindex', 'composite+pkindex', 'pkindex2']
    docs = []
    for n, at in enumerate(range(0, len(combos), per_table)):
        doc = am.Doc()
        doc.enums.append(am.Enum('public', nm('e'), [am.EnumItem(nm('ei')), am.EnumItem(nm('ei'))]))
        doc.enums.append(am.Enum(nm('s'), nm('e'), [am.EnumItem(nm('ei'))]))
        t = am.Table('public' if n % 2 else nm('s'), nm('t'))
        layout = layouts[n % len(layouts)]
        t.note = tx.note('tn', 0.3) if n % 3 == 0 else None
        for ci, (uq, nn, ai, d, tk) in enumerate(combos[at:at + per_table]):
            ty = {'plain': am.ColType('plain', 'int'), 'args': am.ColType('args', 'decimal(10, 2)'),
                  'array': am.ColType('array', 'text[]'), 'enum': am.ColType('enum', enum=0),
                  'enum_schema': am.ColType('enum', enum=1)}.get(tk) or am.ColType('quoted', nm('qt', 'space'))
            c = am.Column(nm('c'), ty, unique=uq, not_null=nn, autoinc=ai)
            if d is not None:
                kind, val = d
                if kind == 'str' and val is None:
                    val = tx.line('d')
                if kind == 'expr':
                    val = rng.choice(['now()', 'id * 2', "concat('a', 'b')"])
                c.default = am.Default(kind, val)
            if layout in ('single',) and ci == 0:
                c.pk = True
            if layout.startswith('composite') and ci < 2 + (n % 2):
                c.pk = True
            c.note = tx.note('cn', 0.3) if (ci + n) % 4 == 0 else None
            t.columns.append(c)
        if 'pkindex' in layout:
            k = 1 if layout == 'pkindex2' else 2
            t.indexes.append(am.Index([('col', c.name) for c in t.columns[-k:]], pk=True))
        doc.tables.append(t)
        doc.default_order()
        docs.append(doc)
    return docs


# ---------------------------------------------------------------------------
# C18: documents whose inline-reference graph has a chosen shape

GRAPH_SHAPES = ['chain', 'chain_rev', 'star_in', 'star_out', 'tree', 'layered', 'diamond', 'disconnected', 'random_dag']


def dag_edges(rng, shape, n):
    """edges (holder, target): holder's CREATE TABLE contains the FK, target must come first.
    Node numbers are declaration positions (tables are declared 0..n-1)."""
    E = set()
    if shape == 'chain':              # declared holder-first: 0 -> 1 -> 2 ...
        E = {(i, i + 1) for i in range(n - 1)}
    elif shape == 'chain_rev':        # declared target-first
        E = {(i + 1, i) for i in range(n - 1)}
    elif shape == 'star_in':          # everybody references node c
        c = rng.randrange(n)
        E = {(i, c) for i in range(n) if i != c}
    elif shape == 'star_out':         # node c references everybody
        c = rng.randrange(n)
        E = {(c, i) for i in range(n) if i != c}
    elif shape == 'tree':
        perm = list(range(n))
        rng.shuffle(perm)
        for k in range(1, n):
            E.add((perm[k], perm[rng.randrange(k)]))
    elif shape == 'layered':
        perm = list(range(n))
        rng.shuffle(perm)
        layers, at = [], 0
        while at < n:
            w = rng.randint(1, 3)
            layers.append(perm[at:at + w])
            at += w
        for a, b in zip(layers, layers[1:]):
            for x in b:
                for y in a:
                    if rng.random() < 0.6:
                        E.add((x, y))
    elif shape == 'diamond':
        perm = list(range(n))
        rng.shuffle(perm)
        if n >= 4:
            a, b, c, d = perm[:4]
            E = {(a, b), (a, c), (b, d), (c, d)}
            for x in perm[4:]:
                E.add((x, rng.choice(perm[:4])))
        else:
            E = {(perm[i], perm[i + 1]) for i in range(n - 1)}
    elif shape == 'disconnected':
        perm = list(range(n))
        rng.shuffle(perm)
        h = n // 2
        E = {(perm[i], perm[i + 1]) for i in range(h - 1)} | {(perm[i + 1], perm[i]) for i in range(h, n - 1)}
    else:  # random_dag: edges only from later to earlier in a random topological order
        perm = list(range(n))
        rng.shuffle(perm)
        for i in range(n):
            for j in range(i):
                if rng.random() < 0.3:
                    E.add((perm[i], perm[j]))
    return sorted(E)


def graph_doc(rng, shape, n, same_bare_names=False, cyclic=False, kinds=('>', '<', '-'), case_twins=None):
    nm = Namer(rng, ('bare', 'bare', 'space', 'unicode'), coin=True)
    if case_twins is None:
        case_twins = rng.random() < 0.15
    doc = am.Doc()
    schemas = ['public', 'public', nm('s'), nm('s')]
    shared = nm('t', 'bare')
    for i in range(n):
        sch = rng.choice(schemas)
        name = nm('t')
        if same_bare_names and i < len(set(schemas)):
            sch = sorted(set(schemas))[i]
            name = shared          # equal bare names in different schemas
        if case_twins and i >= 1 and i <= 2 and not same_bare_names and doc.tables[0].name.swapcase() != doc.tables[0].name:
            # names that differ only in letter case (in the same schema): two different tables
            name = doc.tables[0].name.swapcase() if i == 1 else doc.tables[0].name.capitalize()
            sch = doc.tables[0].schema
            if any(x.name == name and x.schema == sch for x in doc.tables):
                name = nm('t')
            else:
                doc.classes.add('case-twin')
                nm.all_issued.add(name)
        t = am.Table(sch, name)
        t.columns.append(am.Column(nm('id', 'bare'), am.ColType('plain', 'int'), pk=True))
        doc.tables.append(t)
    if n >= 2 and rng.random() < 0.06 and not same_bare_names:
        # a table whose (quoted) name is empty
        tz = rng.choice(doc.tables)
        if not any(x is not tz and x.name == '' and x.schema == tz.schema for x in doc.tables):
            tz.name = ''
            doc.classes.add('empty-table-name')
    edges = dag_edges(rng, shape, n)
    if cyclic and n >= 2:
        edges = sorted(set(edges) | {(b, a) for a, b in edges[:1]} | {(0, n - 1), (n - 1, 0)})
    if rng.random() < 0.3:
        # several foreign keys between the same two tables (a holder may have more keys than there are tables)
        edges = sorted(edges + [e for e in edges for _ in range(rng.randint(0, 3))])
    for h, t in edges:
        kind = rng.choice(kinds)
        H, T = doc.tables[h], doc.tables[t]
        hc = am.Column(nm('fk', 'bare'), am.ColType('plain', 'int'))
        H.columns.append(hc)
        if kind in ('>', '-'):
            hc.inline_refs.append(am.InlineRef(kind, t, T.columns[0].name))
        else:
            # declared on the target side: `ref: < holder.col`
            tc = am.Column(nm('rk', 'bare'), am.ColType('plain', 'int'))
            T.columns.append(tc)
            tc.inline_refs.append(am.InlineRef('<', h, hc.name))
    # self references (a hierarchy column): sometimes on every table, so that every table holds at least one key
    allself = rng.random() < 0.12
    for ti_, t in enumerate(doc.tables):
        if allself or rng.random() < 0.06:
            for _n in range(rng.choice([1, 1, 2])):
                sc = am.Column(nm('self', 'bare'), am.ColType('plain', 'int'))
                sc.inline_refs.append(am.InlineRef(rng.choice(['>', '<']), ti_, t.columns[0].name))
                t.columns.append(sc)
            doc.classes.add('self-reference')
    # aliases; sometimes the alias of a key-holding table is spelled like ANOTHER table's name (legal: the keys differ)
    for t in doc.tables:
        if rng.random() < 0.25:
            t.alias = nm('al', 'bare')
    if edges and n >= 3 and rng.random() < 0.15:
        h = doc.tables[rng.choice(edges)[0]]
        others = [t for t in doc.tables if t is not h and t.schema == 'public' and not any(x is not t and x.name == t.name for x in doc.tables)]
        if others:
            h.alias = rng.choice(others).name
            doc.classes.add('alias-shadow')
    # an enum called like one of the tables (same schema), used as a column type
    if rng.random() < 0.12:
        t0 = rng.choice(doc.tables)
        doc.enums.append(am.Enum(t0.schema, t0.name, [am.EnumItem(nm('ei', 'bare'))]))
        rng.choice(doc.tables).columns.append(am.Column(nm('ec', 'bare'), am.ColType('enum', enum=0)))
        doc.classes.add('enum-named-like-table')
    # a few standalone (non-inline) references and a many-to-many: they must not influence the order clause
    if n >= 2 and rng.random() < 0.5:
        a, b = rng.sample(range(n), 2)
        doc.refs.append(am.Ref(rng.choice(['>', '<', '-', '<>']), a, [doc.tables[a].columns[0].name],
                               b, [doc.tables[b].columns[0].name]))
    doc.default_order()
    return doc, edges


def same_bare_names(doc, rng):
    """labelled class: two (or three) tables share their bare name in different schemas"""
    if len(doc.tables) < 2:
        return False
    k = min(len(doc.tables), rng.choice([2, 2, 3]))
    base = doc.tables[0]
    used = {base.schema}
    for t in doc.tables[1:k]:
        if t.schema in used:
            t.schema = f'sb{len(used)}_' + (t.schema if t.schema != 'public' else 'x')
        used.add(t.schema)
        t.name = base.name
    for t in doc.tables:
        if t.alias is not None and t.alias == base.name:
            t.alias = None      # an alias spelled like the shared bare name would make `name.col` ambiguous
    # the join table of a <> reference is named <left>_<right> in the left schema: keep those names unique
    seen = set()
    for r in doc.refs:
        if r.kind == '<>':
            key = (doc.tables[r.t1].schema, doc.tables[r.t1].name, doc.tables[r.t2].name)
            if key in seen:
                r.kind = '>'
            seen.add(key)
    return True


def namesake(doc):
    """the same document without its enums: every enum-typed column keeps the type NAME as a plain / dotted / quoted type.
    Parsed before `doc` in one process it shows whether what a name meant in an earlier document matters for the next one."""
    import copy
    da = copy.deepcopy(doc)
    for t in da.tables:
        for c in t.columns:
            if c.type.kind == 'enum':
                e = da.enums[c.type.enum]
                if am.BARE_OK(e.name) and am.BARE_OK(e.schema):
                    c.type = am.ColType('plain', e.name) if e.schema == 'public' else am.ColType('dotted', f'{e.schema}.{e.name}')
                else:
                    c.type = am.ColType('quoted', e.name)
    da.enums = []
    da.order = [(k_, i_) for k_, i_ in da.order if k_ != 'e']
    da.classes = set(da.classes) - {'enum-named-like-table', 'dotted-enum-name'}
    return da
