"""Shard runner, aggregator, evidence writer, verdict printer.

A property module `pv.props.cXX` exposes

    ID, LEVEL, RULE, ASSUMPTIONS
    plan(tier, seed) -> list of shard specs (JSON-able dicts)
    run_shard(spec, tier, seed, budget_s) -> pv.result.Shard
    replay(case) -> list of violation records        (re-executes one witness)

Every shard runs in its own subprocess (fresh interpreter, fresh pydbml import,
hard timeout = watchdog).  Verdicts are three valued:

    exit 0  held (possibly with KNOWN-FINDING lines)
    exit 1  VIOLATION property=<id> replay=<path>
    exit 2  INCONCLUSIVE property=<id> reason=...
"""
import argparse
import hashlib
import importlib
import json
import os
import subprocess
import sys
import tempfile
import time
from concurrent.futures import ThreadPoolExecutor

HERE = os.path.dirname(os.path.dirname(os.path.abspath(__file__)))
EVIDENCE_DIR = os.path.join(HERE, 'evidence')
REPLAY_DIR = os.path.join(HERE, 'replay')
NCPU = int(os.environ.get('PV_JOBS', '16'))


def load_prop(pid):
    return importlib.import_module('pv.props.' + pid.lower())


def _run_one(pid, tier, seed, idx, spec, budget_s, scratch):
    out = os.path.join(scratch, f'shard-{pid}-{idx}.json')
    specf = os.path.join(scratch, f'spec-{pid}-{idx}.json')
    with open(specf, 'w') as f:
        json.dump(spec, f)
    cmd = [sys.executable, '-X', 'faulthandler', '-m', 'pv.shard', pid, tier,
           str(seed), specf, out, str(budget_s)]
    env = dict(os.environ)
    hs = spec.get('hashseed') if isinstance(spec, dict) else None
    if hs is not None:
        env['PYTHONHASHSEED'] = str(hs)
    hard = max(60.0, budget_s * 3 + 30)
    t0 = time.time()
    try:
        p = subprocess.run(cmd, env=env, stdout=subprocess.PIPE, stderr=subprocess.PIPE,
                           timeout=hard, text=True)
    except subprocess.TimeoutExpired:
        return {'_inconclusive': f'shard {idx} watchdog fired after {hard:.0f}s'}
    if not os.path.exists(out):
        return {'_inconclusive': f'shard {idx} died rc={p.returncode}: '
                + (p.stderr or '')[-600:].replace('\n', ' | ')}
    with open(out) as f:
        r = json.load(f)
    r['_wall'] = time.time() - t0
    return r


def aggregate(results):
    agg = {'evaluations': 0, 'distinct': set(), 'samples': [], 'violations': [],
           'counters': {}, 'inconclusive': [], 'states': set(), 'transitions': 0,
           'notes': []}
    for r in results:
        if '_inconclusive' in r:
            agg['inconclusive'].append(r['_inconclusive'])
            continue
        agg['evaluations'] += r.get('evaluations', 0)
        agg['distinct'].update(r.get('distinct', []))
        agg['states'].update(r.get('states', []))
        agg['transitions'] += r.get('transitions', 0)
        for s in r.get('samples', []):
            if len(agg['samples']) < 6:
                agg['samples'].append(s)
        agg['violations'].extend(r.get('violations', []))
        for k, v in r.get('counters', {}).items():
            agg['counters'][k] = agg['counters'].get(k, 0) + v
        agg['inconclusive'].extend(r.get('inconclusive', []))
        agg['notes'].extend(r.get('notes', []))
    return agg


def write_replay(pid, v):
    os.makedirs(REPLAY_DIR, exist_ok=True)
    blob = json.dumps(v, sort_keys=True, default=str)
    dig = hashlib.sha1(blob.encode()).hexdigest()[:12]
    path = os.path.join(REPLAY_DIR, f'{pid}-{dig}.json')
    with open(path, 'w') as f:
        f.write(blob)
    return path


def validate_evidence(ev):
    try:
        import jsonschema
        schema_path = '/root/.vp/EVIDENCE.schema.json'
        if not os.path.exists(schema_path):
            schema_path = os.path.join(HERE, 'schemas', 'EVIDENCE.schema.json')
        with open(schema_path) as f:
            schema = json.load(f)
        jsonschema.validate(ev, schema)
        return None
    except Exception as e:  # pragma: no cover
        return str(e)[:300]


def main_check(pid, tier, seed):
    from pv import findings
    t0 = time.time()
    mod = load_prop(pid)
    repo = os.environ.get('PV_REPO', '/repo')
    scratch = os.environ.get('PV_SCRATCH') or tempfile.mkdtemp(prefix='pv-')
    specs = mod.plan(tier, seed)
    budget = mod.BUDGET[tier]
    results = []
    with ThreadPoolExecutor(max_workers=NCPU) as ex:
        futs = [ex.submit(_run_one, pid, tier, seed, i, s, budget, scratch)
                for i, s in enumerate(specs)]
        for f in futs:
            results.append(f.result())
    agg = aggregate(results)

    if hasattr(mod, 'finalize'):
        agg['violations'].extend(mod.finalize(agg) or [])

    # ---- classify violations against the committed known-findings file
    known = findings.load(pid)
    fresh, absorbed = [], {}
    for v in agg['violations']:
        kf = findings.match(known, v)
        if kf is None:
            fresh.append(v)
        else:
            absorbed.setdefault(kf['id'], []).append(v)

    # ---- property-specific conclusiveness rules
    inconc = list(agg['inconclusive'])
    if hasattr(mod, 'conclusive'):
        inconc.extend(mod.conclusive(agg, tier) or [])
    if agg['evaluations'] == 0:
        inconc.append('no case was executed')

    # ---- evidence
    cov = {
        'evaluations': agg['evaluations'],
        'distinct_nontrivial': len(agg['distinct']),
        'rule': mod.RULE,
        'samples': agg['samples'] or ['<none>'],
        'counters': dict(sorted(agg['counters'].items())),
        'shards': len(specs),
        'inconclusive': inconc,
        'known_findings_hit': {k: len(v) for k, v in absorbed.items()},
        'known_findings_audit': findings.audit(known, agg['counters'], absorbed),
        'fresh_violation_classes': sorted({v.get('klass', '?') for v in fresh}),
        'repo': repo,
    }
    if agg['states']:
        cov['states'] = len(agg['states'])
        cov['transitions'] = agg['transitions']
    if mod.LEVEL == 'model_checking':
        cov['traces_validated_against_impl'] = agg['evaluations']
    if getattr(mod, 'EXHAUSTIVE', {}).get(tier):
        cov['exhaustive'] = True
        cov['exhaustive_scope'] = mod.EXHAUSTIVE[tier]
    if agg['notes']:
        cov['notes'] = agg['notes'][:20]
    ev = {
        'property_id': pid, 'tier': tier, 'seed': seed, 'level': mod.LEVEL,
        'coverage': cov, 'assumptions': mod.ASSUMPTIONS,
        'wall_s': round(time.time() - t0, 2), 'violations': len(fresh),
    }
    err = validate_evidence(ev)
    if err:
        inconc.append('evidence does not validate: ' + err)
    # evidence under /verif/evidence is only ever written by runs against /repo itself; a run against a scratch
    # copy (PV_REPO=<patched worktree>: self-test, seeded changes) keeps its evidence in the private scratch directory
    edir = EVIDENCE_DIR if os.path.realpath(repo) == '/repo' and not os.environ.get('PV_NO_EVIDENCE') else (os.environ.get('PV_SCRATCH') or tempfile.gettempdir())
    os.makedirs(edir, exist_ok=True)
    with open(os.path.join(edir, f'{pid}.json'), 'w') as f:
        json.dump(ev, f, indent=1, sort_keys=True, default=str)

    # ---- verdict
    print(f'{pid} tier={tier} seed={seed} evaluations={agg["evaluations"]} '
          f'distinct={len(agg["distinct"])} shards={len(specs)} wall={ev["wall_s"]}s')
    for k in sorted(agg['counters']):
        if k.startswith('obs.') or k.startswith('class.'):
            print(f'  {k}={agg["counters"][k]}')
    for kf in known:
        if kf.get('status', 'open') == 'open':
            ws = absorbed.get(kf['id'], [])
            n = sum(agg['counters'].get('viol.' + k, 0) for k in {w.get('klass') for w in ws})
            print(f'KNOWN-FINDING: property={pid} {kf["id"]} {kf["summary"]} (witnesses this run: {n})')
    if fresh:
        seen = set()
        n = 0
        for v in fresh:
            k = v.get('klass', '?')
            if k in seen:
                continue
            seen.add(k)
            path = write_replay(pid, v)
            print(f'VIOLATION property={pid} replay={path}')
            print(f'  class={k} detail={str(v.get("detail", ""))[:400]}')
            n += 1
            if n >= 10:
                break
        return 1
    if inconc:
        for r in inconc[:10]:
            print(f'INCONCLUSIVE property={pid} reason={r}')
        return 2
    return 0


def main_replay(path):
    with open(path) as f:
        v = json.load(f)
    pid = v['property']
    mod = load_prop(pid)
    from pv import findings
    recs = mod.replay(v)
    known = findings.load(pid)
    fresh = [r for r in recs if findings.match(known, r) is None]
    for r in recs:
        tag = 'VIOLATION' if r in fresh else 'KNOWN-FINDING'
        print(f'{tag} property={pid} class={r.get("klass")} detail={str(r.get("detail"))[:600]}')
    if not recs:
        print(f'replay: witness no longer fails (property={pid})')
    return 1 if fresh else 0


def main():
    ap = argparse.ArgumentParser()
    ap.add_argument('what')
    ap.add_argument('path', nargs='?')
    ap.add_argument('--tier', default=os.environ.get('VERIF_TIER', 'quick'))
    a = ap.parse_args()
    seed = int(os.environ.get('VERIF_SEED', '0') or 0)
    if a.what == 'replay':
        sys.exit(main_replay(a.path))
    sys.exit(main_check(a.what.upper(), a.tier, seed))


if __name__ == '__main__':
    main()
