"""Independent tokenising reader of the SQL DDL emitted by pydbml.

Tokens: "quoted identifier", 'string', ( ) , ; and words.  `--` outside a
string / identifier starts a comment that runs to the end of the line (kept
separately, with the index of the token it precedes).  Statements end at a
top-level `;`.  Nothing here imports pydbml.
"""


class Tok:
    __slots__ = ('k', 'v', 'pos')

    def __init__(self, k, v, pos):
        self.k, self.v, self.pos = k, v, pos    # k: id | str | sym | word

    def __repr__(self):
        return f'{self.k}:{self.v!r}'


def tokenize(text):
    toks, comments = [], []
    i, n = 0, len(text)
    while i < n:
        ch = text[i]
        if ch in ' \t\r\n':
            i += 1
        elif ch == '-' and text.startswith('--', i):
            j = text.find('\n', i)
            if j < 0:
                j = n
            comments.append((len(toks), text[i + 2:j]))
            i = j
        elif ch == '"':
            j = text.find('"', i + 1)
            if j < 0:
                toks.append(Tok('bad', text[i:], i))
                break
            toks.append(Tok('id', text[i + 1:j], i))
            i = j + 1
        elif ch == "'":
            j = text.find("'", i + 1)
            if j < 0:
                toks.append(Tok('bad', text[i:], i))
                break
            toks.append(Tok('str', text[i + 1:j], i))
            i = j + 1
        elif ch in '(),;':
            toks.append(Tok('sym', ch, i))
            i += 1
        else:
            j = i
            while j < n and text[j] not in ' \t\r\n(),;"\'':
                j += 1
            toks.append(Tok('word', text[i:j], i))
            i = j
    return toks, comments


def split_statements(toks):
    out, cur, depth = [], [], 0
    for t in toks:
        if t.k == 'sym' and t.v == '(':
            depth += 1
        elif t.k == 'sym' and t.v == ')':
            depth -= 1
        if t.k == 'sym' and t.v == ';' and depth == 0:
            out.append(cur)
            cur = []
        else:
            cur.append(t)
    if cur:
        out.append(cur)     # unterminated tail
        out[-1].append(Tok('bad', '<no terminating ;>', -1))
    return out


def _is(t, k, v=None):
    return t is not None and t.k == k and (v is None or t.v == v)


def _w(t, v):
    return t is not None and t.k == 'word' and t.v == v


class P:
    """cursor over a token list"""

    def __init__(self, toks):
        self.t = toks
        self.i = 0

    def peek(self, o=0):
        j = self.i + o
        return self.t[j] if j < len(self.t) else None

    def take(self):
        t = self.peek()
        self.i += 1
        return t

    def word(self, v):
        if _w(self.peek(), v):
            self.i += 1
            return True
        return False

    def sym(self, v):
        if _is(self.peek(), 'sym', v):
            self.i += 1
            return True
        return False

    def qname(self):
        """"a" or "a"."b"  (the dot is a word token)"""
        t = self.peek()
        if not _is(t, 'id'):
            return None
        self.i += 1
        parts = [t.v]
        while _w(self.peek(), '.') and _is(self.peek(1), 'id'):
            parts.append(self.peek(1).v)
            self.i += 2
        return parts

    def idlist(self):
        """( "a", "b" )"""
        if not self.sym('('):
            return None
        out = []
        while True:
            t = self.take()
            if not _is(t, 'id'):
                return None
            out.append(t.v)
            if self.sym(','):
                continue
            if self.sym(')'):
                return out
            return None

    def rest(self):
        return self.t[self.i:]

    def done(self):
        return self.i >= len(self.t)


def text_of(toks):
    out = []
    for t in toks:
        if t.k == 'id':
            out.append(f'"{t.v}"')
        elif t.k == 'str':
            out.append(f"'{t.v}'")
        else:
            out.append(t.v)
    return ' '.join(out)


def squash(s):
    return ''.join(str(s).split())


ACTION_WORDS = {'NO', 'ACTION', 'RESTRICT', 'CASCADE', 'SET', 'NULL', 'DEFAULT'}


def _fk_tail(p):
    """FOREIGN KEY (cols) REFERENCES qname (cols) [ON UPDATE a] [ON DELETE a] -> dict or None"""
    if not (p.word('FOREIGN') and p.word('KEY')):
        return None
    cols = p.idlist()
    if cols is None or not p.word('REFERENCES'):
        return None
    ref = p.qname()
    rcols = p.idlist()
    if ref is None or rcols is None:
        return None
    fk = {'cols': cols, 'ref_table': ref, 'ref_cols': rcols, 'on_update': None, 'on_delete': None}
    while p.word('ON'):
        which = p.take()
        if which is None or which.v not in ('UPDATE', 'DELETE'):
            return None
        words = []
        while p.peek() is not None and p.peek().k == 'word' and p.peek().v in ACTION_WORDS and not _w(p.peek(), 'ON'):
            words.append(p.take().v)
        key = 'on_update' if which.v == 'UPDATE' else 'on_delete'
        if fk[key] is not None:
            return None
        fk[key] = ' '.join(words)
    return fk


def _split_top(toks):
    """split a token list on commas at depth 0"""
    out, cur, depth = [], [], 0
    for t in toks:
        if _is(t, 'sym', '('):
            depth += 1
        elif _is(t, 'sym', ')'):
            depth -= 1
        if _is(t, 'sym', ',') and depth == 0:
            out.append(cur)
            cur = []
        else:
            cur.append(t)
    out.append(cur)
    return out


FLAG_STARTS = ('PRIMARY', 'AUTOINCREMENT', 'UNIQUE', 'NOT', 'DEFAULT')


def _column(toks):
    name = toks[0].v
    i = 1
    ty = []
    depth = 0
    while i < len(toks):
        t = toks[i]
        if depth == 0 and t.k == 'word' and t.v in FLAG_STARTS:
            break
        if _is(t, 'sym', '('):
            depth += 1
        elif _is(t, 'sym', ')'):
            depth -= 1
        ty.append(t)
        i += 1
    col = {'name': name, 'type': squash(text_of(ty)), 'pk': False, 'autoinc': False, 'unique': False,
           'not_null': False, 'default': None, 'junk': None, 'flag_order': []}
    p = P(toks[i:])
    while not p.done():
        if p.word('PRIMARY'):
            if not p.word('KEY') or col['pk']:
                col['junk'] = text_of(p.rest())
                break
            col['pk'] = True
            col['flag_order'].append('pk')
        elif p.word('AUTOINCREMENT'):
            col['junk'] = 'dup' if col['autoinc'] else col['junk']
            col['autoinc'] = True
            col['flag_order'].append('autoinc')
        elif p.word('UNIQUE'):
            col['junk'] = 'dup' if col['unique'] else col['junk']
            col['unique'] = True
            col['flag_order'].append('unique')
        elif p.word('NOT'):
            if not p.word('NULL') or col['not_null']:
                col['junk'] = text_of(p.rest())
                break
            col['not_null'] = True
            col['flag_order'].append('not_null')
        elif p.word('DEFAULT'):
            col['default'] = text_of(p.rest())   # DEFAULT is always last
            col['flag_order'].append('default')
            break
        else:
            col['junk'] = text_of(p.rest())
            break
    return col


def _create_table(p, st):
    name = p.qname()
    if name is None or not p.sym('('):
        return None
    body = p.rest()
    if not body or not _is(body[-1], 'sym', ')'):
        return None
    st.update(kind='create_table', name=name, columns=[], pks=[], fks=[], junk=[], body_order=[])
    for item in _split_top(body[:-1]):
        if not item:
            st['junk'].append('<empty item>')
            continue
        q = P(item)
        if _is(item[0], 'id'):
            st['columns'].append(_column(item))
            st['body_order'].append('col')
        elif q.word('PRIMARY'):
            cols_ok = q.word('KEY')
            # subjects may be identifiers or (expressions): keep text per subject
            if not cols_ok or not q.sym('('):
                st['junk'].append(text_of(item))
                continue
            inner = q.rest()
            if not inner or not _is(inner[-1], 'sym', ')'):
                st['junk'].append(text_of(item))
                continue
            st['pks'].append([text_of(x) for x in _split_top(inner[:-1])])
            st['body_order'].append('pk')
        else:
            cname = None
            if q.word('CONSTRAINT'):
                t = q.take()
                if not _is(t, 'id'):
                    st['junk'].append(text_of(item))
                    continue
                cname = t.v
            fk = _fk_tail(q)
            if fk is None or not q.done():
                st['junk'].append(text_of(item))
                continue
            fk['constraint'] = cname
            st['fks'].append(fk)
            st['body_order'].append('fk')
    return st


def parse_statement(toks):
    st = {'kind': 'unknown', 'text': text_of(toks)[:300]}
    if any(t.k == 'bad' for t in toks):
        st['kind'] = 'bad'
        return st
    p = P(toks)
    if p.word('CREATE'):
        if p.word('TYPE'):
            name = p.qname()
            if name and p.word('AS') and p.word('ENUM') and p.sym('('):
                items = []
                while True:
                    t = p.take()
                    if not _is(t, 'str'):
                        return st
                    items.append(t.v)
                    if p.sym(','):
                        continue
                    break
                if p.sym(')') and p.done():
                    st.update(kind='create_type', name=name, items=items)
            return st
        if p.word('TABLE'):
            r = _create_table(p, dict(st))
            return r if r is not None else st
        unique = p.word('UNIQUE')
        if p.word('INDEX'):
            iname = None
            if _is(p.peek(), 'id'):
                iname = p.take().v
            on = None
            if p.word('ON'):
                on = p.qname()
            using = None
            if p.word('USING'):
                t = p.take()
                using = t.v if t is not None else None
            if not p.sym('('):
                return st
            inner = p.rest()
            if not inner or not _is(inner[-1], 'sym', ')'):
                return st
            st.update(kind='create_index', unique=unique, name=iname, on=on, using=using,
                      subjects=[squash(text_of(x)) for x in _split_top(inner[:-1])])
            return st
        return st
    if p.word('COMMENT'):
        if p.word('ON'):
            what = p.take()
            target = p.qname()
            if what is not None and what.v in ('TABLE', 'COLUMN') and target and p.word('IS'):
                t = p.take()
                if _is(t, 'str') and p.done():
                    st.update(kind='comment_on', what=what.v, target=target, text=t.v)
        return st
    if p.word('ALTER'):
        if p.word('TABLE'):
            table = p.qname()
            if table and p.word('ADD'):
                cname = None
                if p.word('CONSTRAINT'):
                    t = p.take()
                    if not _is(t, 'id'):
                        return st
                    cname = t.v
                fk = _fk_tail(p)
                if fk is not None and p.done():
                    fk['constraint'] = cname
                    st.update(kind='alter_fk', table=table, **fk)
        return st
    return st


def read(sql):
    toks, comments = tokenize(sql)
    sts = []
    for n, s in enumerate(split_statements(toks)):
        if not s:
            sts.append({'kind': 'empty'})
            continue
        st = parse_statement(s)
        st['order'] = n
        sts.append(st)
    return {'statements': sts, 'comments': comments, 'ntokens': len(toks)}
