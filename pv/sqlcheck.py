"""Compare what pv.sqlread read from db.sql with pv.expect_sql's expectation.
Yields (part, klass, detail) triples; part in
  type table column pk index comment extra   (C03)
  fk alter join                              (C04)
"""
import json

from pv import sqlread, expect_sql


def _canon(d):
    return json.dumps(d, sort_keys=True, default=str)


def _names(sts, kind):
    return [tuple(s['name']) for s in sts if s['kind'] == kind]


def compare(sql, exp):
    rd = sqlread.read(sql)
    sts = rd['statements']
    out = []

    def v(part, klass, detail):
        out.append((part, klass, detail))

    # ---------------- unknown / malformed statements
    for s in sts:
        if s['kind'] in ('unknown', 'bad', 'empty'):
            v('extra', 'statement-unreadable', s.get('text', s['kind']))
    # ---------------- types, in order
    got_types = [{'name': s['name'], 'items': s['items']} for s in sts if s['kind'] == 'create_type']
    if got_types != exp['types']:
        gn = [tuple(t['name']) for t in got_types]
        en = [tuple(t['name']) for t in exp['types']]
        if sorted(gn) != sorted(en):
            v('type', 'type-set', f'types {gn} != expected {en}')
        elif gn != en:
            v('type', 'type-order', f'types {gn} != expected {en}')
        else:
            for g, e in zip(got_types, exp['types']):
                if g != e:
                    v('type', 'type-items', f'{g} != {e}')
    # ---------------- tables
    join_names = {tuple(j['name']) for j in exp['joins']}
    tabs = {}
    for s in sts:
        if s['kind'] != 'create_table':
            continue
        key = tuple(s['name'])
        if key in tabs:
            v('table', 'table-duplicate', f'CREATE TABLE {key} appears twice')
        tabs[key] = s
    for key in exp['tables']:
        if key not in tabs:
            v('table', 'table-missing', f'no CREATE TABLE for {key}; present: {sorted(tabs)}')
    for key in tabs:
        if key not in exp['tables'] and key not in join_names:
            v('table', 'table-unexpected', f'CREATE TABLE {key} not declared')
    for key, e in exp['tables'].items():
        g = tabs.get(key)
        if g is None:
            continue
        for j in g['junk']:
            v('column', 'table-body-unreadable', f'{key}: {j}')
        gc, ec = g['columns'], e['columns']
        if [c['name'] for c in gc] != [c['name'] for c in ec]:
            v('column', 'column-list', f'{key}: columns {[c["name"] for c in gc]} != {[c["name"] for c in ec]}')
        else:
            for a, b in zip(gc, ec):
                if a['junk']:
                    v('column', 'column-junk', f'{key}.{a["name"]}: {a["junk"]}')
                if a['type'] != b['type']:
                    v('column', 'column-type', f'{key}.{a["name"]}: type {a["type"]!r} != {b["type"]!r}')
                for flag in ('pk', 'autoinc', 'unique', 'not_null'):
                    if a[flag] != b[flag]:
                        v('column', f'column-flag-{flag}-{"extra" if a[flag] else "missing"}',
                          f'{key}.{a["name"]}: {flag} is {a[flag]}, expected {b[flag]}')
                if (a['default'] is not None) != b['has_default']:
                    v('column', 'column-default-' + ('extra' if a['default'] is not None else 'missing'),
                      f'{key}.{a["name"]}: DEFAULT {a["default"]!r}, expected present={b["has_default"]} ({b["default"]!r})')
                elif b['default'] is not None and sqlread.squash(a['default']) != b['default']:
                    v('column', 'column-default-value', f'{key}.{a["name"]}: DEFAULT {a["default"]!r} != {b["default"]!r}')
        gp = [[sqlread.squash(x) for x in pk] for pk in g['pks']]
        if gp != e['pks']:
            v('pk', 'pk-clauses', f'{key}: PRIMARY KEY clauses {gp} != {e["pks"]}')
        # inline foreign keys (C04)
        gf = sorted(g['fks'], key=_canon)
        ef = sorted(e['fks'], key=_canon)
        if gf != ef:
            v('fk', 'inline-fk', f'{key}: inline FKs {g["fks"]} != expected {e["fks"]}')
    # ---------------- indexes: per table, in order
    gi = {}
    for s in sts:
        if s['kind'] == 'create_index':
            gi.setdefault(tuple(s['on']) if s['on'] else None, []).append(
                {'unique': s['unique'], 'name': s['name'], 'on': s['on'], 'using': s['using'], 'subjects': s['subjects']})
    ei = {}
    for key, e in exp['tables'].items():
        if e['indexes']:
            ei[key] = e['indexes']
    if gi != ei:
        for key in sorted(set(gi) | set(ei), key=_canon):
            if gi.get(key) != ei.get(key):
                a, b = gi.get(key, []), ei.get(key, [])
                if len(a) != len(b):
                    v('index', 'index-count', f'ON {key}: {len(a)} index statements, expected {len(b)}: {a} != {b}')
                else:
                    for x, y in zip(a, b):
                        for f in ('unique', 'name', 'on', 'using', 'subjects'):
                            if x[f] != y[f]:
                                v('index', 'index-' + f, f'ON {key}: {f} {x[f]!r} != {y[f]!r}')
    # ---------------- comments on
    gcm = [{'what': s['what'], 'target': s['target'], 'text': s['text']} for s in sts if s['kind'] == 'comment_on']
    ecm = [c for key in exp['table_seq'] for c in exp['tables'][key]['comments']]
    ga = sorted(gcm, key=_canon)
    ea = sorted(ecm, key=_canon)
    if ga != ea:
        gt = sorted((c['what'], tuple(c['target'])) for c in gcm)
        et = sorted((c['what'], tuple(c['target'])) for c in ecm)
        if gt != et:
            v('comment', 'comment-on-target', f'COMMENT ON targets {gt} != {et}')
        else:
            v('comment', 'comment-on-text', f'{[c for c in ga if c not in ea][:2]} != {[c for c in ea if c not in ga][:2]}')
    # ---------------- ALTER TABLE foreign keys + join tables (C04)
    galt = [{k: s[k] for k in ('table', 'constraint', 'cols', 'ref_table', 'ref_cols', 'on_update', 'on_delete')}
            for s in sts if s['kind'] == 'alter_fk']
    ealt = list(exp['alters'])
    for j in exp['joins']:
        for fk in (j['fk1'], j['fk2']):
            ealt.append(dict(fk, constraint=None))
        g = tabs.get(tuple(j['name']))
        if g is None:
            v('join', 'join-table-missing', f'no join table {j["name"]}')
            continue
        gc = [(c['name'], c['type'], c['not_null']) for c in g['columns']]
        ec = [(c['name'], c['type'], True) for c in j['columns']]
        if gc != ec:
            v('join', 'join-columns', f'{j["name"]}: {gc} != {ec}')
        allc = [sqlread.squash(f'"{c["name"]}"') for c in j['columns']]
        col_pk = [c['name'] for c in g['columns'] if c['pk']]
        pk_ok = ([[sqlread.squash(x) for x in pk] for pk in g['pks']] == [allc] and not col_pk) or \
                (len(allc) == 1 and not g['pks'] and len(col_pk) == 1)
        if not pk_ok:
            v('join', 'join-pk', f'{j["name"]}: pk clauses {g["pks"]} / column-level {col_pk}, expected over {allc}')
    ga = sorted(galt, key=_canon)
    ea = sorted(ealt, key=_canon)
    if ga != ea:
        extra = [x for x in ga if x not in ea]
        missing = [x for x in ea if x not in ga]
        v('alter', 'alter-fk', f'unexpected {extra[:3]} ; missing {missing[:3]}')
    return out, rd


def create_table_order(rd):
    return [tuple(s['name']) for s in rd['statements'] if s['kind'] == 'create_table']
