"""Expected DDL structure, computed from the abstract model by the rules written in
C03 / C04 / C18 (never from pydbml objects)."""
from pv import am
from pv.sqlread import squash


def qn(schema, name):
    return [name] if schema == 'public' else [schema, name]


def type_text(doc, t):
    if t.kind == 'enum':
        e = doc.enums[t.enum]
        return squash('.'.join(f'"{x}"' for x in qn(e.schema, e.name)))
    return squash(t.text)


def default_text(d):
    """what has to follow DEFAULT (whitespace-squashed) or None when only presence is checked"""
    if d is None:
        return None
    if d.kind == 'expr':
        return squash('(' + d.value + ')')
    if d.kind == 'null':
        return 'NULL'
    if d.kind == 'bool':
        return None          # spelling of booleans in SQL is not stated by the property
    if d.kind == 'str':
        return squash(d.value)   # text must be present; quoting is not stated by the property
    return squash(repr(d.value)) if d.kind == 'float' else str(d.value)


def holder_of(doc, kind, t1, cols1, t2, cols2):
    """(holder table idx, holder cols, target idx, target cols) for a non-<> reference"""
    if kind in ('>', '-'):
        return t1, cols1, t2, cols2
    return t2, cols2, t1, cols1


def refs(doc, api=False):
    """every reference in order of appearance as a dict (api=True: honour Ref.api_inline)"""
    out = []
    for how, idx, col, r in am.ref_order(doc):
        if how == 'inline':
            out.append({'kind': r.kind, 'inline': True, 't1': idx, 'cols1': [col.name], 't2': r.target,
                        'cols2': [r.col], 'name': None, 'on_update': None, 'on_delete': None})
        else:
            out.append({'kind': r.kind, 'inline': bool(api and r.api_inline and r.kind != '<>'), 't1': r.t1, 'cols1': list(r.cols1), 't2': r.t2,
                        'cols2': list(r.cols2), 'name': r.name, 'on_update': r.on_update, 'on_delete': r.on_delete})
    return out


def expected(doc, api=False):
    """-> dict(types=[...], tables={qname tuple: {...}}, alters=[...], join_tables=[...])
    `api_inline`: optional override list of refs (API-built databases may carry inline
    composite / named / actioned references that DBML text cannot express)"""
    order = doc.order or doc.default_order().order
    types = []
    for k, i in order:
        if k == 'e':
            e = doc.enums[i]
            types.append({'name': qn(e.schema, e.name), 'items': [it.name for it in e.items]})
    rl = refs(doc, api)
    tables = {}
    table_seq = []
    for k, i in order:
        if k != 't':
            continue
        t = doc.tables[i]
        npk = sum(c.pk for c in t.columns)
        cols = []
        for c in t.columns:
            cols.append({
                'name': c.name, 'type': type_text(doc, c.type),
                'pk': c.pk and npk == 1, 'autoinc': c.autoinc, 'unique': c.unique, 'not_null': c.not_null,
                'has_default': c.default is not None, 'default': default_text(c.default),
            })
        pks = []
        for ix in t.indexes:
            if ix.pk:
                pks.append([squash(f'"{s}"' if kk == 'col' else f'({s})') for kk, s in ix.subjects])
        if npk > 1:
            pks.append([squash(f'"{c.name}"') for c in t.columns if c.pk])
        indexes = []
        for ix in t.indexes:
            if not ix.pk:
                indexes.append({'unique': ix.unique, 'name': ix.name, 'on': qn(t.schema, t.name),
                                'using': ix.type.upper() if ix.type else None,
                                'subjects': [squash(f'"{s}"' if kk == 'col' else f'({s})') for kk, s in ix.subjects]})
        comments = []
        if t.note:
            comments.append({'what': 'TABLE', 'target': qn(t.schema, t.name), 'text': t.note.replace("'", '"')})
        for c in t.columns:
            if c.note:
                comments.append({'what': 'COLUMN', 'target': qn(t.schema, t.name) + [c.name],
                                 'text': c.note.replace("'", '"')})
        fks = []
        for r in rl:
            if r['kind'] == '<>' or not r['inline']:
                continue
            h, hc, tg, tc = holder_of(doc, r['kind'], r['t1'], r['cols1'], r['t2'], r['cols2'])
            if h == i:
                tt = doc.tables[tg]
                fks.append({'constraint': r['name'], 'cols': hc, 'ref_table': qn(tt.schema, tt.name), 'ref_cols': tc,
                            'on_update': r['on_update'].upper() if r['on_update'] else None,
                            'on_delete': r['on_delete'].upper() if r['on_delete'] else None})
        key = tuple(qn(t.schema, t.name))
        tables[key] = {'idx': i, 'columns': cols, 'pks': pks, 'indexes': indexes, 'comments': comments, 'fks': fks}
        table_seq.append(key)
    alters, joins = [], []
    for r in rl:
        a, b = doc.tables[r['t1']], doc.tables[r['t2']]
        if r['kind'] == '<>':
            jcols = []
            for tt, cs in ((a, r['cols1']), (b, r['cols2'])):
                for cn in cs:
                    c = next(x for x in tt.columns if x.name == cn)
                    jcols.append({'name': f'{tt.name}_{cn}', 'type': type_text(doc, c.type)})
            jname = qn(a.schema, f'{a.name}_{b.name}')
            n = len(r['cols1'])
            acts = {'on_update': r['on_update'].upper() if r['on_update'] else None,
                    'on_delete': r['on_delete'].upper() if r['on_delete'] else None}
            joins.append({'name': jname, 'columns': jcols,
                          'fk1': dict(table=jname, cols=[c['name'] for c in jcols[:n]], ref_table=qn(a.schema, a.name),
                                      ref_cols=list(r['cols1']), **acts),
                          'fk2': dict(table=jname, cols=[c['name'] for c in jcols[n:]], ref_table=qn(b.schema, b.name),
                                      ref_cols=list(r['cols2']), **acts)})
        elif not r['inline']:
            h, hc, tg, tc = holder_of(doc, r['kind'], r['t1'], r['cols1'], r['t2'], r['cols2'])
            ht, tt = doc.tables[h], doc.tables[tg]
            alters.append({'table': qn(ht.schema, ht.name), 'constraint': r['name'], 'cols': hc,
                           'ref_table': qn(tt.schema, tt.name), 'ref_cols': tc,
                           'on_update': r['on_update'].upper() if r['on_update'] else None,
                           'on_delete': r['on_delete'].upper() if r['on_delete'] else None})
    return {'types': types, 'tables': tables, 'table_seq': table_seq, 'alters': alters, 'joins': joins}
