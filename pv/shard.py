"""Subprocess entry for one shard: python -m pv.shard Cxx tier seed specfile outfile budget_s"""
import faulthandler
import json
import os
import sys
import importlib


def main():
    pid, tier, seed, specf, out, budget = sys.argv[1:7]
    budget = float(budget)
    faulthandler.dump_traceback_later(budget * 3 + 20, exit=False)
    with open(specf) as f:
        spec = json.load(f)
    repo = os.path.realpath(os.environ.get('PV_REPO', '/repo'))
    import pydbml
    where = os.path.realpath(pydbml.__file__)
    if not where.startswith(repo + os.sep):
        res = {'inconclusive': [f'pydbml imported from {where}, not from {repo}'], 'evaluations': 0}
    else:
        mod = importlib.import_module('pv.props.' + pid.lower())
        res = mod.run_shard(spec, tier, int(seed), budget).to_json()
    tmp = out + '.tmp'
    with open(tmp, 'w') as f:
        json.dump(res, f, default=str)
    os.replace(tmp, out)


if __name__ == '__main__':
    main()
