"""Per-shard result accumulator."""
import hashlib
import json
import time


def digest(obj) -> str:
    if not isinstance(obj, str):
        obj = json.dumps(obj, sort_keys=True, default=str)
    return hashlib.blake2b(obj.encode('utf8', 'surrogatepass'), digest_size=8).hexdigest()


class Shard:
    def __init__(self, pid, budget_s=60.0, max_samples=3):
        self.pid = pid
        self.t0 = time.time()
        self.budget_s = budget_s
        self.evaluations = 0
        self.distinct = set()
        self.samples = []
        self.max_samples = max_samples
        self.violations = []
        self.counters = {}
        self.inconclusive = []
        self.states = set()
        self.transitions = 0
        self.notes = []
        self._vclass_count = {}

    # -- time
    def out_of_time(self) -> bool:
        return time.time() - self.t0 > self.budget_s

    # -- counting
    def count(self, key, n=1):
        self.counters[key] = self.counters.get(key, 0) + n

    def case(self, fingerprint, nontrivial=True, sample=None):
        """One executed case. `fingerprint` identifies the case (hashable/JSON-able)."""
        self.evaluations += 1
        if nontrivial:
            self.distinct.add(digest(fingerprint))
        if sample is not None and len(self.samples) < self.max_samples:
            self.samples.append(sample)

    def violation(self, sub, klass, detail, case=None, features=None):
        """Record a witness. `klass` is a short mechanism-level key (used for
        de-duplication and for known-finding predicates); `case` is what replay needs."""
        n = self._vclass_count.get(klass, 0)
        self._vclass_count[klass] = n + 1
        self.count('viol.' + klass)
        if n >= 3:  # keep at most three witnesses per class and shard
            return
        self.violations.append({
            'property': self.pid, 'sub': sub, 'klass': klass,
            'detail': detail if isinstance(detail, str) else json.dumps(detail, default=str)[:2000],
            'case': case, 'features': features or {},
        })

    def to_json(self):
        return {
            'evaluations': self.evaluations, 'distinct': sorted(self.distinct),
            'samples': self.samples, 'violations': self.violations,
            'counters': self.counters, 'inconclusive': self.inconclusive,
            'states': sorted(self.states), 'transitions': self.transitions,
            'notes': self.notes,
        }
