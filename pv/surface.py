"""My own DBML writer for pv.am documents, independent of pydbml.renderer.

A Writer is parameterised by a style (knobs + a seeded RNG for the per-site
choices).  While writing it enumerates *slots* — the structural positions at
which something could be injected (own line in a given body, end of a given
line, a gap between two tokens of a line).  A dry pass counts them; a second
pass with the same RNG seed and `inject={slot_no: text}` produces the same
document with exactly that injection.  C07 (syntax faults) and C14 (comments)
use this; C01/C02/... only use the text.
"""
import random
import re

BARE = re.compile(r'[A-Za-z0-9_]+\Z')

DEFAULT_KNOBS = {
    'kwcase': 'random',      # orig | lower | upper | random
    'quote': 'random',       # min | all | random
    'strings': 'random',     # ' | " | ''' | random
    'blank': 0.25,           # probability of a blank line at each line boundary
    'indent': 'random',      # std | random | none
    'settings_layout': 'random',  # one | multi | random
    'settings_order': 'shuffle',  # canon | shuffle
    'note_pos': 'random',    # settings | colon | block | random
    'body_order': 'random',  # canon | random   (position of note / indexes / props in a table body)
    'pk_spelling': 'random',  # pk | primary key | legacy | random
    'ref_form': 'am',        # am | short | block | random
    'addr': 'random',        # canon | random  (full / bare / public. / alias)
    'comments': 'random',    # none | above | random   (am comments above the element or trailing its line)
    'note_decor': 'random',  # none | random  (extra indentation / blank lines inside ''' notes)
    'brace_newline': 0.15,   # probability that `{` goes on its own line
    'final_newline': 'random',
    'spaces': 'random',      # one | random  (multiple blanks between tokens)
    'block_comments': True,  # may am comments be written as /* */
}

CANON = dict(DEFAULT_KNOBS, kwcase='orig', quote='all', strings="'", blank=0.0, indent='std',
             settings_layout='one', settings_order='canon', note_pos='block', body_order='canon',
             pk_spelling='pk', ref_form='am', addr='canon', note_decor='none', brace_newline=0.0,
             final_newline='no', spaces='one')


class Writer:
    def __init__(self, seed=0, knobs=None, inject=None, case_sensitive=()):
        self.rng = random.Random(seed)
        self.k = dict(DEFAULT_KNOBS)
        if knobs:
            self.k.update(knobs)
        self.inject = inject or {}
        self.slots = []          # slot kinds, index = slot number
        self.out = []            # output lines
        self.marks = []          # (index into out, ctx) of every logical line written through emit()
        self.depth = 0
        self.case_sensitive = set(case_sensitive)
        self.last_lit = None

    # ------------------------------------------------------------------ slots
    def slot(self, kind):
        i = len(self.slots)
        self.slots.append(kind)
        return self.inject.get(i)

    def fault(self, kind):
        """a place where a syntax fault of `kind` can be planted; returns the chosen variant or None"""
        return self.slot('fault:' + kind)

    def br(self, ch, where):
        """structural bracket token; fault variants: drop / double"""
        f = self.fault(f'tok:{ch}:{where}')
        if f == 'drop':
            return ''
        if f == 'double':
            return ch + ch
        return ch

    def gap(self, where):
        """mid-line gap between two tokens: returns ' ' or ' <injected> '"""
        inj = self.slot('gap:' + where)
        if inj:
            return f' {inj} '
        return self.sp()

    # ------------------------------------------------------------------ style atoms
    def sp(self):
        if self.k['spaces'] == 'random' and self.rng.random() < 0.2:
            return ' ' * self.rng.randint(2, 4)
        return ' '

    def kw(self, word):
        if word in self.case_sensitive:
            return word
        mode = self.k['kwcase']
        if mode == 'random':
            mode = self.rng.choice(['orig', 'lower', 'upper', 'mixed'])
        if mode == 'orig':
            return word
        if mode == 'lower':
            return word.lower()
        if mode == 'upper':
            return word.upper()
        return ''.join(ch.upper() if self.rng.random() < 0.5 else ch.lower() for ch in word)

    def ident(self, s):
        q = self.k['quote']
        if not BARE.match(s) or q == 'all' or (q == 'random' and self.rng.random() < 0.35):
            return f'"{s}"'
        return s

    def lit(self, s, note=False):
        """string literal whose parsed value is exactly `s` (for note=True: whose
        *normalised* value is `s`, `s` being in normal form)."""
        q = self.k['strings']
        if q == 'random':
            q = self.rng.choice(["'", '"', "'''"])
        if '\n' in s:
            q = "'''"
        body = s.replace('\\', '\\\\')
        if q == '"':
            body = body.replace('"', '\\"')
        else:
            body = body.replace("'", "\\'")
        if q == "'''" and note and s and self.k['note_decor'] == 'random' and self.rng.random() < 0.6:
            pad = ' ' * self.rng.choice([2, 4, 7])
            lines = body.split('\n')
            lines = [(pad + ln) if ln != '' else (' ' * self.rng.randrange(len(pad)) if self.rng.random() < 0.4 else ln) for ln in lines]
            head = '\n' * self.rng.randint(1, 2)
            tail = '\n' + ' ' * self.rng.randint(0, 4)
            body = head + '\n'.join(lines) + tail
        self.last_lit = (q, q + body + q)
        return q + body + q

    def indent(self):
        mode = self.k['indent']
        if mode == 'none':
            return ''
        if mode == 'std':
            return '    ' * self.depth
        return ' ' * self.rng.randint(0, 3 + 3 * self.depth)

    # ------------------------------------------------------------------ line output
    def emit(self, ctx, text, own=True, eol=True):
        """one logical line (may contain newlines when it ends inside/after a
        multi-line literal).  Slots: an own-line slot before it, an end-of-line slot after it."""
        if own:
            if self.rng.random() < self.k['blank']:
                self.out.append('' if self.rng.random() < 0.7 else '   ')
            inj = self.slot('own:' + ctx)
            if inj:
                self.out.extend(inj.split('\n'))
        ind = self.indent()
        if eol:
            inj = self.slot('eol:' + ctx)
            if inj:
                text = text + ' ' + inj
        self.marks.append((len(self.out), ctx))
        self.out.append(ind + text)

    def dot(self):
        """the dot of a qualified name in a table header or a reference endpoint: blanks may surround it there"""
        if self.k['spaces'] == 'random' and self.rng.random() < 0.08:
            return self.rng.choice([' . ', '. ', ' .', '  .  '])
        return '.'

    def opsp(self):
        """blank(s) around a reference operator; sometimes none at all (`a.x>b.y`, `a.x-b.y`, `ref:>t.c`)"""
        if self.k['spaces'] == 'random' and self.rng.random() < 0.12:
            return ''
        return self.sp()

    def settings(self, items, ctx):
        """`[a, b]` possibly laid out over several lines"""
        if not items:
            return ''
        f = self.fault('settings:' + ctx)
        if f == 'empty':
            return '[]'
        if f == 'twolists':      # a second complete settings list after the first one
            cut = self.rng.randint(1, len(items) - 1) if len(items) > 1 else 1
            a, b = list(items[:cut]), list(items[cut:]) or list(items)
            return '[' + ', '.join(a) + ']' + self.rng.choice([' ', '', '  ']) + '[' + ', '.join(b) + ']'
        if f == 'foreign':      # a setting that is valid, but only for ANOTHER kind of element
            pool = {'column': ['headercolor: #fff', 'color: #fff', 'type: hash', 'delete: cascade', 'update: cascade'],
                    'table': ['color: #abc', 'type: hash', 'unique', 'pk', 'delete: cascade', 'increment', 'not null'],
                    'index': ['headercolor: #fff', 'color: #fff', 'default: 1', 'increment', 'not null', 'delete: cascade', 'ref: > t.c'],
                    'ref': ['pk', 'unique', 'color: #fff', 'headercolor: #fff', 'type: hash', 'increment', 'not null', 'default: 1'],
                    'enumitem': ['pk', 'default: 1', 'unique', 'type: hash', 'headercolor: #fff', 'increment', 'delete: cascade'],
                    'group': ['headercolor: #fff', 'pk', 'type: hash', 'delete: cascade', 'unique']}.get(ctx, ['zzzforeign'])
            items = list(items)
            items.insert(self.rng.randint(0, len(items)), self.rng.choice(pool))
        if f and f.startswith('unknown'):
            items = list(items)
            what = {'unknown': 'zzzunknownsetting', 'unknown-kv-string': "zzzunk: 'value'", 'unknown-kv-word': 'zzzunk: value',
                    'unknown-kv-number': 'zzzunk: 12'}[f]
            items.insert(self.rng.randint(0, len(items)), what)
        if f == 'tcomma':
            items = list(items[:-1]) + [items[-1] + ',']
        if f == 'dcomma':
            items = [items[0] + ','] + list(items[1:]) if len(items) > 1 else [',' + items[0]]
        lb, rb = self.br('[', ctx), None
        lay = self.k['settings_layout']
        if lay == 'random':
            lay = 'multi' if self.rng.random() < 0.3 else 'one'
        if lay == 'one':
            parts = []
            for n, it in enumerate(items):
                if n:
                    parts.append(',' + self.gap('settings:' + ctx))
                parts.append(it)
            return lb + ''.join(parts) + self.br(']', ctx)
        # multi-line: slots for own-line and end-of-line inside the list
        lead_comma = self.rng.random() < 0.25
        lines = []
        first = lb
        inj = self.slot('eol:settings:' + ctx)
        if inj:
            first += ' ' + inj
        lines.append(first)
        pad = ' ' * self.rng.randint(1, 8)
        for n, it in enumerate(items):
            inj = self.slot('own:settings:' + ctx)
            if inj:
                lines.extend(pad + x for x in inj.split('\n'))
            last = n == len(items) - 1
            if lead_comma:
                txt = (', ' if n else '') + it
            else:
                txt = it + ('' if last else ',')
            if '\n' not in it:
                inj = self.slot('eol:settings:' + ctx)
                if inj:
                    txt += ' ' + inj
            lines.append(pad + txt)
        inj = self.slot('own:settings:' + ctx)
        if inj:
            lines.extend(pad + x for x in inj.split('\n'))
        lines.append(pad[:-1] + self.br(']', ctx))
        return '\n'.join(lines)

    def comment_lines(self, ctx, text):
        """am comment written above the element"""
        if text is None:
            return
        mode = self.k['comments']
        if mode == 'none':
            return
        if '\n' not in text and '*/' not in text and self.k['block_comments'] and self.rng.random() < 0.2:
            self.out.append(self.indent() + '/* ' + text + '*/')
            return
        for ln in text.split('\n'):
            self.out.append(self.indent() + '//' + (' ' if self.rng.random() < 0.8 else '') + ln)

    def place_comment(self, ctx, text):
        """for elements that take a comment above or trailing: writes it above now and
        returns '', or returns the trailing text to append to the element's line"""
        if text is None or self.k['comments'] == 'none':
            return ''
        if '\n' in text or self.k['comments'] == 'above' or self.rng.random() < 0.5:
            self.comment_lines(ctx, text)
            return ''
        return self.trailing(text)

    # ------------------------------------------------------------------ names
    def table_ref(self, doc, ti, pad=False):
        t = doc.tables[ti]
        opts = []
        if t.schema == 'public':
            opts += ['bare', 'public']
        else:
            opts += ['full']
        if t.alias:
            opts.append('alias')
        how = opts[0] if self.k['addr'] == 'canon' else self.rng.choice(opts)
        if isinstance(self.k['addr'], str) and self.k['addr'] in opts:
            how = self.k['addr']
        if self.k['addr'] == 'explicit':          # always schema.name, also for public
            how = 'public' if t.schema == 'public' else 'full'
        if how == 'bare':
            return self.ident(t.name)
        if how == 'alias':
            return self.ident(t.alias)
        return self.ident(t.schema) + (self.dot() if pad else '.') + self.ident(t.name)

    def qual(self, schema, name):
        if schema == 'public' and (self.k['addr'] == 'canon' or self.rng.random() < 0.7):
            return self.ident(name)
        return self.ident(schema) + '.' + self.ident(name)

    # ------------------------------------------------------------------ elements
    def note_setting(self, text):
        return self.kw('note:') + self.gap('colon:note') + self.lit(text, note=True)

    def note_body(self, ctx, text, allow_block=True):
        form = self.k['note_pos']
        if form in ('random', 'settings'):
            form = self.rng.choice(['colon', 'block'])
        if form == 'colon' or not allow_block:
            self.emit(ctx, self.kw('Note:') + self.sp() + self.lit(text, note=True))
        else:
            self.emit(ctx, self.kw('Note') + self.sp() + self.br('{', 'note_block'))
            self.depth += 1
            self.emit('note_block', self.lit(text, note=True))
            self.depth -= 1
            self.emit('note_block', self.br('}', 'note_block'))

    def default_lit(self, d):
        if d.kind == 'int':
            return str(d.value)
        if d.kind == 'float':
            return repr(d.value)
        if d.kind == 'bool':
            return self.kw('true' if d.value else 'false')
        if d.kind == 'null':
            return self.kw('null')
        if d.kind == 'expr':
            return '`' + d.value + '`'
        return self.lit(d.value)

    def type_text(self, doc, t):
        if t.kind == 'enum':
            e = doc.enums[t.enum]
            return self.qual(e.schema, e.name)
        if t.kind == 'quoted':
            return f'"{t.text}"'
        if t.kind == 'dotted':
            a, _, b = t.text.partition('.')
            return self.ident(a) + '.' + self.ident(b)
        if t.kind == 'array':
            return self.ident(t.text[:-2]) + '[]'
        if t.kind == 'qarray':       # an array of a type that needs quotes: "varchar(255)"[]
            return f'"{t.text[:-2]}"[]'
        if t.kind == 'args':
            base, _, rest = t.text.partition('(')
            return self.ident(base) + '(' + rest
        return self.ident(t.text)

    def inline_ref(self, doc, r):
        return (self.kw('ref:') + self.opsp() + (self.fault('lit:refop') or r.kind) + self.opsp()
                + self.table_ref(doc, r.target, pad=True) + self.dot() + self.ident(r.col))

    def trailing(self, text):
        """am comment written at the end of the element's line (single line only)"""
        if text is None or self.k['comments'] == 'none':
            return ''
        if self.rng.random() < 0.75 or '*/' in text or not self.k['block_comments']:
            return self.sp() + '//' + (' ' if self.rng.random() < 0.8 else '') + text
        return self.sp() + '/* ' + text + '*/'

    def column(self, doc, c):
        tail = self.place_comment('table_body', c.comment)
        if self.fault('lit:coltype') == 'drop':
            head = self.ident(c.name)
        else:
            head = self.ident(c.name) + self.gap('col:name-type') + self.type_text(doc, c.type)
        items = []
        pk_sp = self.k['pk_spelling']
        if pk_sp == 'random':
            pk_sp = self.rng.choice(['pk', 'primary key', 'legacy'])
        legacy = []
        if c.pk:
            if pk_sp == 'legacy':
                legacy.append(self.kw('pk'))
            else:
                items.append(self.kw(pk_sp))
        if c.unique:
            if pk_sp == 'legacy' and self.rng.random() < 0.7:
                legacy.append(self.kw('unique'))
            else:
                items.append(self.kw('unique'))
        if self.k['settings_order'] == 'shuffle':
            self.rng.shuffle(legacy)
        if c.not_null:
            items.append(self.kw('not null'))
        elif c.explicit_null:
            items.append(self.kw('null'))
        if c.autoinc:
            items.append(self.kw('increment'))
        if c.default is not None:
            items.append(self.kw('default:') + self.gap('colon:default') + self.default_lit(c.default))
        if c.note is not None:
            items.append(self.note_setting(c.note))
        refs = [self.inline_ref(doc, r) for r in c.inline_refs]
        props = [self.ident(k) + ':' + self.sp() + self.lit(v) for k, v in c.props]
        if self.k['settings_order'] == 'shuffle':
            # shuffle, keeping the relative order inside `refs` and inside `props`
            tagged = [('i', x) for x in items] + [('r', None)] * len(refs) + [('p', None)] * len(props)
            self.rng.shuffle(tagged)
            ri, pi = iter(refs), iter(props)
            items = [x if k == 'i' else (next(ri) if k == 'r' else next(pi)) for k, x in tagged]
        else:
            items = refs + items + props
        text = head
        for w in legacy:
            text += self.sp() + w
        if items:
            text += self.gap('col:before-settings') + self.settings(items, 'column')
        text += tail
        self.emit('table_body', text, eol=not tail)

    def index(self, doc, i):
        tail = self.place_comment('indexes_body', i.comment)
        subj = []
        for kind, s in i.subjects:
            subj.append('`' + s + '`' if kind == 'expr' else self.ident(s))
        if len(subj) == 1 and self.rng.random() < 0.8:
            text = subj[0]
        else:
            text = '(' + (',' + self.sp()).join(subj) + ')'
        items = []
        if i.name is not None:
            items.append(self.kw('name:') + self.gap('colon:ixname') + self.lit(i.name))
        if i.pk:
            items.append(self.kw('pk'))
        if i.unique:
            items.append(self.kw('unique'))
        if i.type is not None:
            items.append(self.kw('type:') + self.gap('colon:ixtype') + (self.fault('lit:indextype') or self.kw(i.type)))
        if i.note is not None:
            items.append(self.note_setting(i.note))
        if self.k['settings_order'] == 'shuffle':
            self.rng.shuffle(items)
        if items:
            text += self.gap('index:before-settings') + self.settings(items, 'index')
        self.emit('indexes_body', text + tail, eol=not tail)

    def table(self, doc, t):
        self.comment_lines('top', t.comment)
        head = self.kw('Table') + self.sp()
        head += self.ident(t.name) if t.schema == 'public' and (self.k['addr'] == 'canon' or self.rng.random() < 0.8) \
            else self.ident(t.schema) + self.dot() + self.ident(t.name)
        if t.alias:
            head += self.sp() + self.kw('as') + self.sp() + self.ident(t.alias)
        note_pos = self.k['note_pos']
        if note_pos == 'random':
            note_pos = self.rng.choice(['settings', 'colon', 'block'])
        sett = []
        if t.header_color:
            sett.append(self.kw('headercolor:') + self.gap('colon:headercolor') + (self.fault('lit:color') or t.header_color))
        if t.note is not None and note_pos == 'settings':
            sett.append(self.note_setting(t.note))
        if self.k['settings_order'] == 'shuffle':
            self.rng.shuffle(sett)
        if sett:
            head += self.gap('table:before-settings') + self.settings(sett, 'table')
        self.open_brace('top', head, 'table:before-brace')
        # body
        body = [('col', c) for c in t.columns]
        extra = []
        if t.note is not None and note_pos != 'settings':
            extra.append(('note', note_pos))
        if t.indexes:
            extra.append(('indexes', None))
        if self.k['body_order'] == 'random':
            for e in extra:
                body.insert(self.rng.randint(0, len(body)), e)
            pos = 0
            for p in t.props:
                pos = self.rng.randint(pos, len(body))
                body.insert(pos, ('prop', p))
                pos += 1
        else:
            body += [('prop', p) for p in t.props] + extra
        self.depth += 1
        for kind, x in body:
            if kind == 'col':
                self.column(doc, x)
            elif kind == 'prop':
                self.emit('table_body', self.ident(x[0]) + ':' + self.sp() + self.lit(x[1]))
            elif kind == 'note':
                save = self.k['note_pos']
                self.k['note_pos'] = x
                self.note_body('table_body', t.note)
                self.k['note_pos'] = save
            else:
                self.emit('table_body', self.kw('indexes') + self.sp() + self.br('{', 'indexes'))
                self.depth += 1
                for i in t.indexes:
                    self.index(doc, i)
                self.depth -= 1
                self.emit('indexes_body', self.br('}', 'indexes_body'))
        self.depth -= 1
        self.emit('table_body', self.br('}', 'table_body'))

    def open_brace(self, ctx, head, gapname):
        if self.rng.random() < self.k['brace_newline']:
            self.emit(ctx, head)
            self.emit('before_brace', self.br('{', gapname), own=True)
        else:
            self.emit(ctx, head + self.gap(gapname) + self.br('{', gapname))

    def enum(self, doc, e):
        self.comment_lines('top', e.comment)
        name = self.ident(e.name) if e.schema == 'public' and (self.k['addr'] == 'canon' or self.rng.random() < 0.8) \
            else self.ident(e.schema) + '.' + self.ident(e.name)
        self.open_brace('top', self.kw('Enum') + self.sp() + name, 'enum:before-brace')
        self.depth += 1
        for it in e.items:
            tail = self.place_comment('enum_body', it.comment)
            text = self.ident(it.name)
            if it.note is not None:
                text += self.gap('enumitem:before-settings') + self.settings([self.note_setting(it.note)], 'enumitem')
            self.emit('enum_body', text + tail, eol=not tail)
        self.depth -= 1
        self.emit('enum_body', self.br('}', 'enum_body'))

    def endpoint(self, doc, ti, cols):
        tr = self.table_ref(doc, ti, pad=True)
        if len(cols) == 1 and self.rng.random() < 0.9:
            return tr + self.dot() + self.ident(cols[0])
        pad = '' if self.k['spaces'] == 'one' or self.rng.random() < 0.6 else ' '       # `t.( a, b )`
        return tr + self.dot() + '(' + pad + (',' + self.sp()).join(self.ident(c) for c in cols) + pad + ')'

    def ref(self, doc, r):
        tail = self.place_comment('top', r.comment)
        form = self.k['ref_form']
        if form == 'am':
            form = r.form
        elif form == 'random':
            form = self.rng.choice(['short', 'block'])
        body = (self.endpoint(doc, r.t1, r.cols1) + self.opsp() + (self.fault('lit:refop') or r.kind) + self.opsp()
                + self.endpoint(doc, r.t2, r.cols2))
        sett = []
        if r.on_update is not None:
            sett.append(self.kw('update:') + self.gap('colon:update') + (self.fault('lit:action') or self.kw(r.on_update)))
        if r.on_delete is not None:
            sett.append(self.kw('delete:') + self.gap('colon:delete') + (self.fault('lit:action') or self.kw(r.on_delete)))
        if self.k['settings_order'] == 'shuffle':
            self.rng.shuffle(sett)
        if sett:
            body += self.gap('ref:before-settings') + self.settings(sett, 'ref')
        head = self.kw('Ref')
        if r.name is not None:
            head += self.sp() + self.ident(r.name)
        if form == 'short':
            self.emit('top', head + ':' + self.sp() + body + tail, eol=not tail)
        else:
            self.open_brace('top', head, 'ref:before-brace')
            self.depth += 1
            self.emit('ref_block', body + tail, eol=not tail)
            self.depth -= 1
            self.emit('ref_block', self.br('}', 'ref_block'))

    def group(self, doc, g):
        self.comment_lines('top', g.comment)
        head = self.kw('TableGroup') + self.sp() + self.ident(g.name)
        note_pos = self.k['note_pos']
        if note_pos == 'random':
            note_pos = self.rng.choice(['settings', 'colon', 'block'])
        sett = []
        if g.color:
            sett.append(self.kw('color:') + self.gap('colon:color') + (self.fault('lit:color') or g.color))
        if g.note is not None and note_pos == 'settings':
            sett.append(self.note_setting(g.note))
        if self.k['settings_order'] == 'shuffle':
            self.rng.shuffle(sett)
        if sett:
            head += self.gap('group:before-settings') + self.settings(sett, 'group')
        self.open_brace('top', head, 'group:before-brace')
        body = [('item', i) for i in g.items]
        if g.note is not None and note_pos != 'settings':
            pos = self.rng.randint(0, len(body)) if self.k['body_order'] == 'random' else len(body)
            body.insert(pos, ('note', note_pos))
        self.depth += 1
        for kind, x in body:
            if kind == 'item':
                self.emit('group_body', self.table_ref(doc, x))
            else:
                save = self.k['note_pos']
                self.k['note_pos'] = x
                self.note_body('group_body', g.note)
                self.k['note_pos'] = save
        self.depth -= 1
        self.emit('group_body', self.br('}', 'group_body'))

    def project(self, doc, p):
        self.comment_lines('top', p.comment)
        self.open_brace('top', self.kw('Project') + self.sp() + self.ident(p.name), 'project:before-brace')
        body = [('item', kv) for kv in p.items]
        if p.note is not None:
            pos = self.rng.randint(0, len(body)) if self.k['body_order'] == 'random' else len(body)
            body.insert(pos, ('note', None))
        self.depth += 1
        for kind, x in body:
            if kind == 'item':
                self.emit('project_body', self.ident(x[0]) + ':' + self.sp() + self.lit(x[1]))
            else:
                self.note_body('project_body', p.note)
        self.depth -= 1
        self.emit('project_body', self.br('}', 'project_body'))

    def sticky(self, doc, s):
        self.open_brace('top', self.kw('Note') + self.sp() + self.ident(s.name), 'sticky:before-brace')
        self.depth += 1
        self.emit('note_block', self.lit(s.text, note=True))
        self.depth -= 1
        self.emit('note_block', self.br('}', 'sticky'))

    # ------------------------------------------------------------------ document
    def document(self, doc):
        order = doc.order or doc.default_order().order
        for kind, idx in order:
            if kind == 't':
                self.table(doc, doc.tables[idx])
            elif kind == 'e':
                self.enum(doc, doc.enums[idx])
            elif kind == 'r':
                self.ref(doc, doc.refs[idx])
            elif kind == 'g':
                self.group(doc, doc.groups[idx])
            elif kind == 's':
                self.sticky(doc, doc.stickies[idx])
            elif kind == 'p':
                self.project(doc, doc.project)
        inj = self.slot('own:end')
        if inj:
            self.out.extend(inj.split('\n'))
        text = '\n'.join(self.out)
        fn = self.k['final_newline']
        if fn == 'yes' or (fn == 'random' and self.rng.random() < 0.7):
            text += '\n'
        return text


def render(doc, seed=0, knobs=None, inject=None, case_sensitive=()):
    w = Writer(seed, knobs, inject, case_sensitive)
    return w.document(doc)


def render_with_slots(doc, seed=0, knobs=None, case_sensitive=(), want_writer=False):
    w = Writer(seed, knobs, None, case_sensitive)
    text = w.document(doc)
    if want_writer:
        return text, list(w.slots), w
    return text, list(w.slots)


def render_lines(doc, seed=0, knobs=None):
    """-> (list of output items, {index: ctx}) : the logical lines as written (an item may span several physical lines)"""
    w = Writer(seed, knobs)
    w.document(doc)
    return list(w.out), dict(w.marks)
